"""Models (ASSUMED contracts) of hyperframe / hpack / stdlib pieces used by h2.
Each is an assumption about code outside /repo; see DESIGN.md 2.5."""
import z3
from .values import *  # noqa
from .core import *  # noqa
from .builtins_model import EXTERN_CALLS, EXTERN_ATTRS, EXTERN_METHODS, EXTERN_GETATTR, EXTERN_SETATTR, \
    extern_call, extern_method, USED_MODELS

# hyperframe.frame.SettingsFrame identifiers (RFC 7540 6.5.2 / RFC 8441)
for _n, _v in [('HEADER_TABLE_SIZE', 1), ('ENABLE_PUSH', 2), ('MAX_CONCURRENT_STREAMS', 3),
               ('INITIAL_WINDOW_SIZE', 4), ('MAX_FRAME_SIZE', 5), ('MAX_HEADER_LIST_SIZE', 6),
               ('ENABLE_CONNECT_PROTOCOL', 8)]:
    EXTERN_ATTRS['hyperframe.frame.SettingsFrame.' + _n] = _v
