"""Models (ASSUMED contracts) of hyperframe / hpack / stdlib pieces used by h2.
Each is an assumption about code outside /repo; see DESIGN.md 2.5."""
import z3
from .values import *  # noqa
from .core import *  # noqa
Z_INT, Z_BOOL = z3.IntSort(), z3.BoolSort()
from .builtins_model import EXTERN_CALLS, EXTERN_ATTRS, EXTERN_METHODS, EXTERN_GETATTR, EXTERN_SETATTR, \
    extern_call, extern_method, USED_MODELS

# hyperframe.frame.SettingsFrame identifiers (RFC 7540 6.5.2 / RFC 8441)
for _n, _v in [('HEADER_TABLE_SIZE', 1), ('ENABLE_PUSH', 2), ('MAX_CONCURRENT_STREAMS', 3),
               ('INITIAL_WINDOW_SIZE', 4), ('MAX_FRAME_SIZE', 5), ('MAX_HEADER_LIST_SIZE', 6),
               ('ENABLE_CONNECT_PROTOCOL', 8)]:
    EXTERN_ATTRS['hyperframe.frame.SettingsFrame.' + _n] = _v


# ---------------------------------------------------------------------------
# hyperframe frames (ASSUMED model of hyperframe 6.x constructors, flags,
# flow_controlled_length, serialize preconditions and body lengths)
HF = 'hyperframe.frame.'
FRAME_DEFS = {
    'DataFrame': dict(flags=['END_STREAM', 'PADDED'], assoc='has', fields={'pad_length': 0, 'data': b''}, pos=['stream_id', 'data']),
    'HeadersFrame': dict(flags=['END_STREAM', 'END_HEADERS', 'PADDED', 'PRIORITY'], assoc='has',
                         fields={'pad_length': 0, 'depends_on': 0, 'stream_weight': 0, 'exclusive': False, 'data': b''},
                         pos=['stream_id', 'data']),
    'PriorityFrame': dict(flags=[], assoc='has', fields={'depends_on': 0, 'stream_weight': 0, 'exclusive': False},
                          pos=['stream_id', 'depends_on', 'stream_weight', 'exclusive']),
    'RstStreamFrame': dict(flags=[], assoc='has', fields={'error_code': 0}, pos=['stream_id', 'error_code']),
    'SettingsFrame': dict(flags=['ACK'], assoc='no', fields={'settings': None}, pos=['stream_id', 'settings'], default_sid=0),
    'PushPromiseFrame': dict(flags=['END_HEADERS', 'PADDED'], assoc='has',
                             fields={'pad_length': 0, 'promised_stream_id': 0, 'data': b''},
                             pos=['stream_id', 'promised_stream_id', 'data']),
    'PingFrame': dict(flags=['ACK'], assoc='no', fields={'opaque_data': b''}, pos=['stream_id', 'opaque_data'], default_sid=0),
    'GoAwayFrame': dict(flags=[], assoc='no', fields={'last_stream_id': 0, 'error_code': 0, 'additional_data': b''},
                        pos=['stream_id', 'last_stream_id', 'error_code', 'additional_data'], default_sid=0),
    'WindowUpdateFrame': dict(flags=[], assoc='either', fields={'window_increment': 0}, pos=['stream_id', 'window_increment']),
    'ContinuationFrame': dict(flags=['END_HEADERS'], assoc='has', fields={'data': b''}, pos=['stream_id', 'data']),
    'AltSvcFrame': dict(flags=[], assoc='either', fields={'origin': b'', 'field': b''}, pos=['stream_id', 'origin', 'field']),
    'ExtensionFrame': dict(flags=[], assoc='either', fields={'type': 0, 'flag_byte': 0, 'body': b''},
                           pos=['type', 'stream_id', 'flag_byte', 'body']),
}


def _mk_frame_ctor(name, d):
    def ctor(I, args, kwargs, node):
        fields = dict(d['fields'])
        vals = {}
        for p, v in zip(d['pos'], args):
            vals[p] = v
        flags_arg = kwargs.pop('flags', ()) if 'flags' in kwargs else ()
        vals.update(kwargs)
        if 'stream_id' not in vals:
            if 'default_sid' in d:
                vals['stream_id'] = d['default_sid']
            else:
                I.raise_builtin('TypeError', node=node)
        sid = vals.pop('stream_id')
        for k, v in vals.items():
            if k not in fields:
                I.raise_builtin('TypeError', node=node)
            fields[k] = v
        if name == 'SettingsFrame':
            if fields['settings'] is None or (isinstance(fields['settings'], Ref) and not I.truth_is_true(fields['settings'])):
                fields['settings'] = I.heap.alloc(DictObj({}))
        flags = I.heap.alloc(Obj('hyperframe.flags.Flags', {'defined': tuple(d['flags']),
                                                            'set': {f: False for f in d['flags']}}))
        fields.update(stream_id=sid, flags=flags, body_len=0)
        ref = I.heap.alloc(Obj(HF + name, fields))
        for f in I.iter_values(flags_arg, node):
            flags_add(I, flags, I.heap.get(flags), [f], {}, node)
        # stream association (Frame.__init__)
        sid = I.unopt(sid, node)
        if sid is None:
            nz = False
        else:
            nz = I.truth(sid)
        if d['assoc'] == 'has':
            if not I.branch(nz, 'frame-has-stream'):
                I.raise_builtin('hyperframe.exceptions.InvalidDataError', node=node)
        elif d['assoc'] == 'no':
            if I.branch(nz, 'frame-no-stream'):
                I.raise_builtin('hyperframe.exceptions.InvalidDataError', node=node)
        if name == 'AltSvcFrame':
            for k in ('origin', 'field'):
                if str_kind(fields[k]) != 'bytes':
                    I.raise_builtin('hyperframe.exceptions.InvalidDataError', node=node)
        return ref
    return ctor


for _n, _d in FRAME_DEFS.items():
    EXTERN_CALLS[HF + _n] = _mk_frame_ctor(_n, _d)


@extern_method('hyperframe.flags.Flags', 'add')
def flags_add(I, ref, o, args, kwargs, node):
    name = args[0]
    if not isinstance(name, str) or name not in o.fields['defined']:
        I.raise_builtin('ValueError', node=node)
    o.fields['set'] = dict(o.fields['set'])
    o.fields['set'][name] = True
    return None


@extern_method('hyperframe.flags.Flags', 'discard')
def flags_discard(I, ref, o, args, kwargs, node):
    name = args[0]
    if isinstance(name, str) and name in o.fields['set']:
        o.fields['set'] = dict(o.fields['set'])
        o.fields['set'][name] = False
    return None


def flags_contains(I, ref, o, item, node):
    if isinstance(item, str):
        return o.fields['set'].get(item, False)
    return False


def frame_setattr(I, ref, o, attr, v, node):
    if attr == 'flags':
        # f.flags = {'ACK'}: a plain set replaces the Flags object
        if isinstance(v, Ref) and isinstance(I.heap.get(v), SetObj):
            so = I.heap.get(v)
            name = o.cls[len(HF):]
            defined = tuple(FRAME_DEFS[name]['flags'])
            st = {f: False for f in defined}
            extra = {}
            for k, m in so.elems.items():
                if k in st:
                    st[k] = m
                else:
                    extra[k] = m
            st.update(extra)
            o.fields['flags'] = I.heap.alloc(Obj('hyperframe.flags.Flags', {'defined': defined + tuple(extra), 'set': st}))
            return None
    o.fields[attr] = v
    return None


def frame_getattr(I, ref, o, attr, node):
    name = o.cls[len(HF):]
    if attr == 'flow_controlled_length' and name == 'DataFrame':
        padded = flags_contains(I, None, I.heap.get(o.fields['flags']), 'PADDED', node)
        pl = I.int_of(I.unopt_strict(o.fields['pad_length'], node))
        n = I.str_len(o.fields['data'])
        return zint(n) + z3.If(zbool(padded), zint(pl) + 1, 0) if not (isinstance(padded, bool) and isinstance(n, int) and isinstance(pl, int)) \
            else n + (pl + 1 if padded else 0)
    if attr == '__class__':
        return ExternV(o.cls)
    if attr == 'serialize':
        return BuiltinMethod(ref, 'serialize')
    if attr in ('serialize_body', 'parse_body'):
        return BuiltinMethod(ref, attr)
    return NotImplemented


for _n in FRAME_DEFS:
    EXTERN_GETATTR[HF + _n] = frame_getattr
    EXTERN_SETATTR[HF + _n] = frame_setattr


def _rng(I, v, lo, hi, node):
    """struct.pack range check: value must be an int in [lo, hi]."""
    v = I.unopt(v, node)
    if v is None or not (is_int_like(v) or is_bool_like(v) or isinstance(v, EnumV)):
        I.raise_builtin('struct.error', node=node)
    x = I.int_of(v)
    ok = zand(zint(x) >= lo, zint(x) <= hi) if not isinstance(x, int) else (lo <= x <= hi)
    if not I.branch(ok, 'struct-range'):
        I.raise_builtin('struct.error', node=node)
    return x


def frame_body_len(I, o, node):
    name = o.cls[len(HF):]
    f = o.fields
    fl = I.heap.get(f['flags'])

    def has(flag):
        return flags_contains(I, None, fl, flag, node)

    def ln(v):
        v = I.unopt(v, node)      # a value known not to be None on this path
        if v is None or str_kind(v) != 'bytes':
            I.raise_builtin('TypeError', node=node)
        return zint(I.str_len(v))
    U32 = 2 ** 32 - 1
    if name in ('DataFrame', 'HeadersFrame', 'PushPromiseFrame'):
        pl = f['pad_length']
        padded = has('PADDED')
        if I.branch(padded, 'padded'):
            pl = _rng(I, pl, 0, 255, node)
            extra = 1
        else:
            pl = I.int_of(I.unopt_strict(pl, node))
            extra = 0
        # b"\0" * pad_length is appended whether or not PADDED is set
        padbytes = z3.If(zint(pl) < 0, 0, zint(pl))
        n = extra + ln(f['data']) + padbytes
        if name == 'HeadersFrame' and I.branch(has('PRIORITY'), 'prio-flag'):
            ex = f['exclusive']
            d = I.int_of(I.unopt_strict(f['depends_on'], node))
            exb = I.truth(ex)
            _rng(I, zint(d) + z3.If(zbool(exb), 2 ** 31, 0), 0, U32, node)
            _rng(I, f['stream_weight'], 0, 255, node)
            n = n + 5
        if name == 'PushPromiseFrame':
            _rng(I, f['promised_stream_id'], 0, U32, node)
            n = n + 4
        return n
    if name == 'PriorityFrame':
        d = I.int_of(I.unopt_strict(f['depends_on'], node))
        exb = I.truth(f['exclusive'])
        _rng(I, zint(d) + z3.If(zbool(exb), 2 ** 31, 0), 0, U32, node)
        _rng(I, f['stream_weight'], 0, 255, node)
        return 5
    if name == 'RstStreamFrame':
        _rng(I, f['error_code'], 0, U32, node)
        return 4
    if name == 'SettingsFrame':
        return I.settings_body_len(f['settings'], node)
    if name == 'PingFrame':
        n = ln(f['opaque_data'])
        if not I.branch(n <= 8, 'ping-len'):
            I.raise_builtin('hyperframe.exceptions.InvalidFrameError', node=node)
        return 8
    if name == 'GoAwayFrame':
        I.int_of(I.unopt_strict(f['last_stream_id'], node))
        _rng(I, f['error_code'], 0, U32, node)
        return 8 + ln(f['additional_data'])
    if name == 'WindowUpdateFrame':
        I.int_of(I.unopt_strict(f['window_increment'], node))
        return 4
    if name == 'ContinuationFrame':
        return ln(f['data'])
    if name == 'AltSvcFrame':
        no = ln(f['origin'])
        if not I.branch(no <= 65535, 'altsvc-origin-len'):
            I.raise_builtin('struct.error', node=node)
        return 2 + no + ln(f['field'])
    if name == 'ExtensionFrame':
        return I.int_of(f['body_len'])
    raise Unsupported('body_len of ' + name)


def frame_serialize(I, ref, o, args, kwargs, node):
    """serialize(): checks the struct.pack preconditions (raising struct.error
    like the real code), sets body_len, records the frame in the ghost g_out
    and returns opaque bytes of length 9 + body_len."""
    sid = I.unopt_strict(o.fields['stream_id'], node)
    I.int_of(sid)
    n = frame_body_len(I, o, node)
    o.fields['body_len'] = z3.simplify(zint(n)) if not isinstance(n, int) else n
    I.ghost_emit(ref)
    out = I.new_abs('wire')
    I.assume(I.s_len(out) == 9 + zint(n))
    return out


for _n in FRAME_DEFS:
    EXTERN_METHODS[(HF + _n, 'serialize')] = frame_serialize


# ---------------------------------------------------------------------------
# collections.deque of Optional[int]  (Settings._settings values)
#   cells: z3 Array Int->Int, lo / hi: Int window [lo, hi) of live positions, head_none: Bool (first element is None)
#   append writes cell hi and moves hi, popleft moves lo: no shifting, so every obligation about queues stays in the
#   array-property / linear-integer fragment (the sequence-theory encoding used before was unstable in z3).
DQ = 'collections.deque'
_DQF = ('cells', 'lo', 'hi', 'head_none')


def _dq_get(I, recv):
    """-> (cells, lo, hi, head_none)"""
    if isinstance(recv, View):
        m = I.heap.objs[recv.moid]
        return tuple(z3.Select(m.arrays[recv.prefix + f], recv.idx) for f in _DQF)
    o = I.heap.get(recv)
    if o.forward is not None:
        return _dq_get(I, o.forward)
    return tuple(o.fields[f] for f in _DQF)


def _dq_set(I, recv, cells, lo, hi, head_none):
    vals = (cells, zint(lo), zint(hi), zbool(head_none))
    if isinstance(recv, View):
        m = I.heap.objs[recv.moid]
        for f, v in zip(_DQF, vals):
            m.arrays[recv.prefix + f] = z3.Store(m.arrays[recv.prefix + f], recv.idx, v)
        return
    o = I.heap.get(recv)
    if o.forward is not None:
        return _dq_set(I, o.forward, cells, lo, hi, head_none)
    for f, v in zip(_DQF, vals):
        o.fields[f] = v


def settings_update_summary(I, recv, ro, other, om, node):
    """Settings.update(other) for a dictionary of ANY size: closed form of the stdlib loop
    `for key in other: self[key] = other[key]` over the contract of the real Settings.__setitem__ (contracts/
    c_settings2.py: raises InvalidSettingsValueError iff the value is invalid for the key, else appends the value to
    the key's queue, creating the queue [None, value] for a new key).  The per-key effects touch distinct keys, so the
    loop's result does not depend on the iteration order when every value is valid; when some value is invalid the
    keys processed before it are unknown (arbitrary subset applied).  ASSUMED summary (listed in the evidence)."""
    import ast as _ast
    USED_MODELS.add('summary: Settings.update(dict of any size) = per-key effect of Settings.__setitem__ (its verified contract), order-independent closed form')
    m = I.heap.get(ro.fields['_settings'])
    k = z3.Int('upd!k')
    odom, oval = om.dom, om.arrays['']
    # validity of (k, other[k]) by the specification twin of _validate_setting
    fr = Frame(None, {'kk': k, 'vv': z3.Select(oval, k)}, I.frames[-1].module)
    I.frames.append(fr)
    try:
        bad_k = zbool(I.truth(I.spec_eval(_ast.parse('spec_valid_setting(kk, vv) != 0', mode='eval').body)))
        code_k = zint(I.int_of(I.spec_eval(_ast.parse('spec_valid_setting(kk, vv)', mode='eval').body)))
    finally:
        I.frames.pop()
    any_bad = z3.Exists([k], z3.And(z3.Select(odom, k), bad_k))
    cells, lo, hi, hn = (m.arrays[f] for f in _DQF)
    dom = m.dom
    inn, was = z3.Select(odom, k), z3.Select(dom, k)
    app_cells = z3.If(was, z3.Store(z3.Select(cells, k), z3.Select(hi, k), z3.Select(oval, k)),
                      z3.Store(z3.Select(cells, k), 1, z3.Select(oval, k)))
    if I.branch(any_bad, 'settings-update-invalid-value'):
        # some value is invalid: an arbitrary subset of the (valid) keys was applied before the raise
        I.counter += 1
        done = z3.Array('upd_done!%d' % I.counter, Z_INT, Z_BOOL)
        appl = z3.And(inn, z3.Select(done, k), z3.Not(bad_k))
        kbad = I.fresh('upd_bad_key', 'int')
        I.assume(z3.And(z3.Select(odom, kbad), z3.substitute(bad_k, (k, kbad)), z3.Not(z3.Select(done, kbad))))
        exc_code = z3.substitute(code_k, (k, kbad))
    else:
        appl = inn
        exc_code = None
    m.dom = z3.Lambda([k], z3.Or(was, appl))
    m.arrays['cells'] = z3.Lambda([k], z3.If(appl, app_cells, z3.Select(cells, k)))
    m.arrays['lo'] = z3.Lambda([k], z3.If(z3.And(appl, z3.Not(was)), 0, z3.Select(lo, k)))
    m.arrays['hi'] = z3.Lambda([k], z3.If(appl, z3.If(was, z3.Select(hi, k) + 1, 2), z3.Select(hi, k)))
    m.arrays['head_none'] = z3.Lambda([k], z3.If(z3.And(appl, z3.Not(was)), z3.BoolVal(True), z3.Select(hn, k)))
    if m.size is not None:
        old_size = m.size
        m.size = I.fresh('settings_size_after_update', 'int')
        I.assume(m.size >= zint(old_size))
        if om.size is not None:
            I.assume(m.size <= zint(old_size) + zint(om.size))
    if exc_code is not None:
        exc = I.make_exception('InvalidSettingsValueError', node)
        I.heap.get(exc).fields['error_code'] = exc_code
        raise PyRaise(exc, I.origin(node))
    return None


def dq_len(lo, hi):
    return zint(hi) - zint(lo)


@extern_call('collections.deque')
def deque_new(I, args, kwargs, node):
    cells = z3.K(z3.IntSort(), z3.IntVal(0))
    n = 0
    head_none = False
    if args:
        vals = list(I.iter_values(args[0], node))
        for i, v in enumerate(vals):
            if v is None:
                if i != 0:
                    raise Unsupported('deque with None beyond the head')
                head_none = True
                cells = z3.Store(cells, n, z3.IntVal(0))
            else:
                v = I.unopt(v, node)
                cells = z3.Store(cells, n, zint(I.int_of(v)))
            n += 1
    return I.heap.alloc(Obj(DQ, {'cells': cells, 'lo': z3.IntVal(0), 'hi': z3.IntVal(n), 'head_none': zbool(head_none)}))


@extern_method(DQ, '__len__')
def deque_len(I, recv, o, args, kwargs, node):
    cells, lo, hi, _ = _dq_get(I, recv)
    return z3.simplify(dq_len(lo, hi))


@extern_method(DQ, '__getitem__')
def deque_getitem(I, recv, o, args, kwargs, node):
    cells, lo, hi, hn = _dq_get(I, recv)
    i = I.int_of(args[0])
    if I.spec_mode and not (isinstance(i, int) and i == 0):
        # specification expressions may read any position (only the head can hold None)
        zi = zint(i)
        return Opt(z3.And(zbool(hn), zi == 0), z3.Select(cells, zint(lo) + zi))
    if not (isinstance(i, int) and i == 0):
        raise Unsupported('deque index other than 0')
    if I.spec_mode:
        return Opt(zbool(hn), z3.Select(cells, zint(lo)))
    if not I.branch(dq_len(lo, hi) > 0, 'deque-nonempty'):
        I.raise_builtin('IndexError', node=node)
    return Opt(zbool(hn), z3.simplify(z3.Select(cells, zint(lo))))


@extern_method(DQ, 'append')
def deque_append(I, recv, o, args, kwargs, node):
    cells, lo, hi, hn = _dq_get(I, recv)
    v = I.unopt(args[0], node)
    if v is None:
        raise Unsupported('deque.append(None)')
    empty = dq_len(lo, hi) == 0
    _dq_set(I, recv, z3.Store(cells, zint(hi), zint(I.int_of(v))), lo, zint(hi) + 1, zand(hn, znot(empty)))
    return None


@extern_method(DQ, 'popleft')
def deque_popleft(I, recv, o, args, kwargs, node):
    cells, lo, hi, hn = _dq_get(I, recv)
    if not I.branch(dq_len(lo, hi) > 0, 'deque-nonempty'):
        I.raise_builtin('IndexError', node=node)
    head = Opt(zbool(hn), z3.simplify(z3.Select(cells, zint(lo))))
    _dq_set(I, recv, cells, zint(lo) + 1, hi, False)
    return head


def view_getitem_dispatch(I, view, idx, node):
    f = EXTERN_METHODS.get((view.cls, '__getitem__'))
    if f:
        return f(I, view, None, [idx], {}, node)
    raise Unsupported('subscript on view of %r' % (view.cls,))


# ---------------------------------------------------------------------------
# collections.abc.MutableMapping mixin methods (reference implementations)
MM = 'collections.abc.MutableMapping'


@extern_method(MM, 'get')
def mm_get(I, recv, o, args, kwargs, node):
    default = args[1] if len(args) > 1 else kwargs.get('default')
    try:
        return I.getitem(recv, args[0], node)
    except PyRaise as pr:
        if I.exc_matches(pr.exc, ExternV('builtins.KeyError')):
            return default
        raise


@extern_method(MM, 'update')
def mm_update(I, recv, o, args, kwargs, node):
    """update(other): for key in other: self[key] = other[key] -- sequential,
    so an exception leaves the earlier keys applied."""
    other = args[0]
    if isinstance(other, Ref) and isinstance(I.heap.get(other), MapObj):
        return I.map_update_loop(recv, other, node)
    for k in I.iter_values(other, node):
        I.setitem(recv, k, I.getitem(other, k, node), node)
    return None


@extern_method(MM, 'items')
def mm_items(I, recv, o, args, kwargs, node):
    return I.heap.alloc(Obj('mapping-items', {'mapping': recv}))


@extern_method(MM, 'keys')
def mm_keys(I, recv, o, args, kwargs, node):
    return I.heap.alloc(Obj('mapping-keys', {'mapping': recv}))


# ---------------------------------------------------------------------------
# collections.namedtuple
@extern_call('collections.namedtuple')
def namedtuple_factory(I, args, kwargs, node):
    fields = tuple(I.iter_values(args[1], node))
    return I.heap.alloc(Obj('namedtuple-class', {'name': args[0], 'fields': fields}))


# ---------------------------------------------------------------------------
# hpack (ASSUMED): Encoder.encode consumes its iterable element by element and
# changes the compression context as soon as one field has been consumed;
# Decoder.decode returns a list of (name, value) byte pairs or raises an
# HPACKError subclass.
@extern_call('hpack.hpack.Encoder')
def encoder_new(I, args, kwargs, node):
    return I.heap.alloc(Obj('hpack.hpack.Encoder', {'header_table_size': 4096}))


@extern_call('hpack.hpack.Decoder')
def decoder_new(I, args, kwargs, node):
    return I.heap.alloc(Obj('hpack.hpack.Decoder', {'max_header_list_size': 65536, 'max_allowed_table_size': 4096}))


@extern_method('hpack.hpack.Encoder', 'encode')
def encoder_encode(I, ref, o, args, kwargs, node):
    I.g_nencode = I.g_nencode + 1
    from . import hdrmodel
    if hdrmodel.is_hdr(I, args[0]):
        def partial(k):
            I.g_enc = I.g_enc + z3.If(k > 0, 1, 0)
            I.g_enc_log.append(('encode-partial', k))
        t, cnt = hdrmodel.consume(I, args[0], node, consumer=partial)
        I.g_enc = I.g_enc + z3.If(cnt > 0, 1, 0)
        I.g_enc_log.append(('encode', cnt))
        I.last_encoded = t
        out = I.new_abs('hblock')
        I.assume(z3.Implies(cnt > 0, I.s_len(out) >= 1))
        I.assume(z3.Implies(cnt == 0, I.s_len(out) == 0))
        I.ghost_blocks.append((t, out))
        return out
    n = 0
    items = []
    try:
        for h in I.iter_values(args[0], node):
            n += 1
            items.append(h)
            if n == 1:
                I.g_enc = I.g_enc + 1       # context changes with the first consumed field
    finally:
        I.g_enc_log.append(('encode', n))
    I.last_encoded = items
    out = I.new_abs('hblock')
    I.assume(I.s_len(out) >= (1 if n else 0))
    if n == 0:
        I.assume(I.s_len(out) == 0)
    return out


def encoder_setattr(I, ref, o, attr, v, node):
    if attr == 'header_table_size':
        I.g_enc = I.g_enc + 1           # a table-size change is part of the context
    o.fields[attr] = v
    return None


EXTERN_SETATTR['hpack.hpack.Encoder'] = encoder_setattr


# base64 (ASSUMED inverse pair)
@extern_call('base64.urlsafe_b64encode')
def b64enc(I, args, kwargs, node):
    from .bytesmodel import B
    f = z3.Function('b64enc', B, B)
    return SymStr('bytes', f(I.to_abs(args[0])))


# ---------------------------------------------------------------------------
# collections.OrderedDict as the base of h2.utilities.SizeLimitDict:
# backing store = symbolic map int -> Optional[StreamClosedBy] with a size ghost.
OD = 'collections.OrderedDict'


def _od_map(I, ref):
    o = I.heap.get(ref)
    return o.fields['_od'], I.heap.get(o.fields['_od'])


@extern_method(OD, '__init__')
def od_init(I, ref, o, args, kwargs, node):
    if args or kwargs:
        raise Unsupported('OrderedDict(...) with initial content')
    I.heap.get(ref).fields['_od'] = I.new_empty_map('closed', None, scalar_desc='optenum:StreamClosedBy')
    return None


@extern_method(OD, '__setitem__')
def od_setitem(I, ref, o, args, kwargs, node):
    mref, m = _od_map(I, ref)
    key = zint(I.int_of(args[0]))
    was_present = z3.Select(m.dom, key)
    I.store_obj_into_map(mref, args[0], args[1], node)
    m = I.heap.get(mref)
    # insertion order (the part of it eviction needs): a key that was NOT present becomes the newest entry
    # (OrderedDict.__setitem__ appends new keys at the end; an existing key keeps its position)
    prev = getattr(m, 'newest', None)
    m.newest = (was_present, key, prev)
    return None


@extern_method(OD, '__getitem__')
def od_getitem(I, ref, o, args, kwargs, node):
    mref, m = _od_map(I, ref)
    return I.map_lookup(mref, m, args[0], node)


@extern_method(OD, '__contains__')
def od_contains(I, ref, o, args, kwargs, node):
    mref, m = _od_map(I, ref)
    return I.contains(mref, args[0], node)


@extern_method(OD, '__len__')
def od_len(I, ref, o, args, kwargs, node):
    mref, m = _od_map(I, ref)
    return m.size


@extern_method(OD, 'popitem')
def od_popitem(I, ref, o, args, kwargs, node):
    """popitem(last=False): removes the oldest key -- modelled as removing
    SOME present key (over-approximation of FIFO order)."""
    mref, m = _od_map(I, ref)
    if not I.branch(zint(m.size) > 0, 'od-nonempty'):
        I.raise_builtin('KeyError', node=node)
    k = I.fresh('evicted', 'int')
    I.assume(z3.Select(m.dom, k))
    nw = getattr(m, 'newest', None)
    if nw is not None and not (kwargs.get('last', True) is True):
        # FIFO: the entry appended last is the oldest only when it is the only one
        was_present, key, _ = nw
        I.assume(z3.Implies(z3.And(z3.Not(was_present), zint(m.size) > 1), k != key))
    v = I.map_lookup(mref, m, k, node)
    I.map_remove(m, k)
    I.g_evicted = getattr(I, 'g_evicted', []) + [k]
    return (k, v)


# ---------------------------------------------------------------------------
# Parser OUTPUT contract (ASSUMED): what Frame.parse_frame_header + parse_body
# can hand to h2 -- any of the 12 classes, fields in wire ranges.
def sym_frame(I, desc, name):
    cls = desc.split(':')[1]
    d = FRAME_DEFS[cls]
    U31, U32 = 2 ** 31 - 1, 2 ** 32 - 1
    sid = I.fresh(name + '.stream_id', 'int')
    if d['assoc'] == 'no':
        I.assume(sid == 0)
    elif d['assoc'] == 'has':
        I.assume(z3.And(sid >= 1, sid <= U31))
    else:
        I.assume(z3.And(sid >= 0, sid <= U31))
    fl = {f: I.fresh('%s.flag.%s' % (name, f), 'bool') for f in d['flags']}
    flags = I.heap.alloc(Obj('hyperframe.flags.Flags', {'defined': tuple(d['flags']), 'set': fl}))
    f = {'stream_id': sid, 'flags': flags}

    def rng(n, lo, hi):
        v = I.fresh('%s.%s' % (name, n), 'int')
        I.assume(z3.And(v >= lo, v <= hi))
        return v

    def byts(n):
        return I.new_abs('%s.%s' % (name, n))
    bl = I.fresh(name + '.body_len', 'int')
    I.assume(z3.And(bl >= 0, bl <= 2 ** 24 - 1))
    f['body_len'] = bl
    if cls in ('DataFrame', 'HeadersFrame', 'PushPromiseFrame'):
        f['data'] = byts('data')
        pl = rng('pad_length', 0, 255)
        I.assume(z3.Implies(z3.Not(fl['PADDED']), pl == 0))
        I.assume(z3.Implies(pl > 0, pl < bl))          # else InvalidPaddingError
        f['pad_length'] = pl
    if cls in ('HeadersFrame', 'PriorityFrame'):
        f['depends_on'] = rng('depends_on', 0, U31)
        f['stream_weight'] = rng('stream_weight', 0, 255)
        f['exclusive'] = I.fresh(name + '.exclusive', 'bool')
    if cls == 'DataFrame':
        I.assume(bl == I.s_len(f['data']) + z3.If(fl['PADDED'], f['pad_length'] + 1, 0))
    if cls == 'RstStreamFrame':
        f['error_code'] = rng('error_code', 0, U32)
    if cls == 'SettingsFrame':
        m = I.new_sym_map(name + '.settings', None, scalar_desc='int')
        mo = I.heap.get(m)
        mo.size = I.fresh(name + '.nsettings', 'int')
        I.assume(mo.size >= 0)
        k = z3.Int(name + '!k')
        I.assume(z3.ForAll([k], z3.Implies(z3.Select(mo.dom, k),
                 z3.And(k >= 0, k <= 65535, z3.Select(mo.arrays[''], k) >= 0, z3.Select(mo.arrays[''], k) <= U32))))
        I.assume(z3.Implies(fl['ACK'], mo.size == 0))
        I.assume(z3.Implies(fl['ACK'], z3.ForAll([k], z3.Not(z3.Select(mo.dom, k)))))
        f['settings'] = m
    if cls == 'PushPromiseFrame':
        p = rng('promised_stream_id', 2, U32)
        I.assume(p % 2 == 0)
        f['promised_stream_id'] = p
    if cls == 'PingFrame':
        f['opaque_data'] = byts('opaque_data')
        I.assume(I.s_len(f['opaque_data']) == 8)
    if cls == 'GoAwayFrame':
        f['last_stream_id'] = rng('last_stream_id', 0, U32)
        f['error_code'] = rng('error_code', 0, U32)
        f['additional_data'] = byts('additional_data')
    if cls == 'WindowUpdateFrame':
        f['window_increment'] = rng('window_increment', 1, U31)
    if cls == 'ContinuationFrame':
        f['data'] = byts('data')
    if cls == 'AltSvcFrame':
        f['origin'] = byts('origin')
        f['field'] = byts('field')
    if cls == 'ExtensionFrame':
        f['type'] = rng('type', 0, 255)
        f['flag_byte'] = rng('flag_byte', 0, 255)
        f['body'] = byts('body')
    return I.heap.alloc(Obj(HF + cls, f))


@extern_method('hpack.hpack.Decoder', 'decode')
def decoder_decode(I, ref, o, args, kwargs, node):
    """ASSUMED: decode(block, raw=True) returns SOME list of byte pairs (any
    list: the peer chooses the block) or raises an HPACKError subclass;
    OversizedHeaderListError is one of them.  The decoder context advances in
    every case in which the block was consumed."""
    from . import hdrmodel
    I.g_dec = I.g_dec + 1
    sel = I.fresh('hpack_outcome', 'int')
    c = I.choose([sel == 0, sel == 1, z3.And(sel != 0, sel != 1)], 'hpack-decode',
                 names=['ok', 'oversized', 'malformed'])
    if c == 1:
        I.raise_builtin('hpack.exceptions.OversizedHeaderListError', node=node)
    if c == 2:
        I.raise_builtin('hpack.exceptions.HPACKDecodingError', node=node)
    return hdrmodel.sym_hdrlist(I, 'hdrlist', 'decoded_headers')


# ---------------------------------------------------------------------------
# HTTP2-Settings header (C25).  ASSUMED about hyperframe / base64 (listed in evidence):
#   SettingsFrame.serialize_body() is an injective function of the settings dict for identifiers 0..65535 and
#   values 0..2**32-1 (6 bytes per entry), parse_body is its inverse and raises InvalidFrameError when the
#   length is not a multiple of 6; base64.urlsafe_b64decode(urlsafe_b64encode(x)) == x; decoding arbitrary
#   bytes may raise binascii.Error.
from .bytesmodel import B as _B, blen as _blen
_AB, _AI = z3.ArraySort(z3.IntSort(), z3.BoolSort()), z3.ArraySort(z3.IntSort(), z3.IntSort())
ser_settings = z3.Function('ser_settings', _AB, _AI, _B)
parse_dom = z3.Function('parse_settings_dom', _B, _AB)
parse_val = z3.Function('parse_settings_val', _B, _AI)
b64e = z3.Function('b64encode', _B, _B)
b64d = z3.Function('b64decode', _B, _B)


def settings_arrays(I, settings, node=None):
    """(dom, values) arrays of a settings dict (DictObj with int / symbolic keys, or a symbolic map)."""
    o = I.heap.get(settings)
    if isinstance(o, MapObj):
        return o.dom, o.arrays['']
    if isinstance(o, DictObj):
        dom, val = z3.K(z3.IntSort(), z3.BoolVal(False)), z3.K(z3.IntSort(), z3.IntVal(0))
        for k, v in o.items.items():
            kk = zint(I.int_of(k.e if isinstance(k, ZKey) else k))
            dom, val = z3.Store(dom, kk, z3.BoolVal(True)), z3.Store(val, kk, zint(I.int_of(I.unopt(v, node))))
        return dom, val
    raise Unsupported('settings payload %r' % (settings,))


def _settings_axioms(I):
    if getattr(I, '_settings_axioms_done', False):
        return
    I._settings_axioms_done = True
    USED_MODELS.add('assumed: hyperframe SettingsFrame.parse_body(serialize_body(s)) == s for identifiers 0..65535 and values 0..2**32-1; base64.urlsafe_b64decode(urlsafe_b64encode(x)) == x')
    d, v, x = z3.Const('sd', _AB), z3.Const('sv', _AI), z3.Const('bx', _B)
    I.assume(z3.ForAll([d, v], z3.And(parse_dom(ser_settings(d, v)) == d, parse_val(ser_settings(d, v)) == v),
                       patterns=[ser_settings(d, v)]))
    I.assume(z3.ForAll([x], b64d(b64e(x)) == x, patterns=[b64e(x)]))


@extern_method(HF + 'SettingsFrame', 'serialize_body')
def settings_serialize_body(I, ref, o, args, kwargs, node):
    n = I.settings_body_len(o.fields['settings'], node)      # struct.error for values outside 0..2**32-1
    dom, val = settings_arrays(I, o.fields['settings'], node)
    out = SymStr('bytes', ser_settings(dom, val))
    I.assume(_blen(out.s) == zint(n))
    return out


@extern_method(HF + 'SettingsFrame', 'parse_body')
def settings_parse_body(I, ref, o, args, kwargs, node):
    _settings_axioms(I)
    data = I.to_abs(I.unopt_strict(args[0], node))
    if I.branch(_blen(data) % 6 != 0, 'settings-body-length'):
        I.raise_builtin('hyperframe.exceptions.InvalidFrameError', node=node)
    m = I.new_sym_map('parsed_settings', None, scalar_desc='int')
    mo = I.heap.get(m)
    mo.dom, mo.arrays[''] = parse_dom(data), parse_val(data)
    mo.size = I.fresh('nparsed', 'int')
    I.assume(z3.And(mo.size >= 0, mo.size * 6 <= _blen(data)))
    k = z3.Int('parsed!k')
    I.assume(z3.ForAll([k], z3.Implies(z3.Select(mo.dom, k), z3.And(k >= 0, k <= 65535, z3.Select(mo.arrays[''], k) >= 0,
                                                                       z3.Select(mo.arrays[''], k) <= 2 ** 32 - 1))))
    o.fields['settings'] = m
    o.fields['body_len'] = _blen(data)
    return None


@extern_call('base64.urlsafe_b64encode')
def b64_encode(I, args, kwargs, node):
    x = I.to_abs(I.unopt_strict(args[0], node))
    out = SymStr('bytes', b64e(x))
    I.assume(_blen(out.s) >= 0)
    return out


@extern_call('base64.urlsafe_b64decode')
def b64_decode(I, args, kwargs, node):
    _settings_axioms(I)
    x = I.to_abs(I.unopt_strict(args[0], node))
    ok = I.fresh('b64_wellformed', 'bool')
    if not I.branch(ok, 'base64-decodes'):
        I.raise_builtin('binascii.Error', node=node)
    out = SymStr('bytes', b64d(x))
    I.assume(_blen(out.s) >= 0)
    return out


# ---------------------------------------------------------------------------
# hyperframe parser as h2.frame_buffer uses it (ASSUMED contract, DESIGN 2.5):
#   Frame.parse_frame_header(9 bytes) -> (frame of one of the 12 classes, length) with length a function of those
#     9 bytes in 0..2**24-1, or raises InvalidDataError (stream-association violation) / InvalidFrameError;
#   frame.parse_body(view) fills the body fields within wire ranges (sym_frame) or raises InvalidDataError /
#     InvalidFrameError / InvalidPaddingError.
hdr_len = z3.Function('frame_header_length', _B, z3.IntSort())
hdr_outcome = z3.Function('frame_header_outcome', _B, z3.IntSort())


def header_valid_term(I, data):
    head = I.s_slice(data, None, 9)
    return hdr_outcome(head.s) == 0


def header_length_term(I, data):
    """The length field announced by the first 9 bytes of `data` (a function of those bytes)."""
    head = I.s_slice(data, None, 9)
    t = hdr_len(head.s)
    I.assume(z3.And(t >= 0, t <= 2 ** 24 - 1))
    return t


@extern_call('hyperframe.frame.Frame.parse_frame_header')
def parse_frame_header(I, args, kwargs, node):
    USED_MODELS.add('assumed: hyperframe Frame.parse_frame_header / parse_body output contract (any of 12 classes, wire-range fields; raises InvalidDataError / InvalidFrameError / InvalidPaddingError only)')
    head = args[0]
    t = hdr_len(I.to_abs(head))
    I.assume(z3.And(t >= 0, t <= 2 ** 24 - 1))
    sel = hdr_outcome(I.to_abs(head))      # which of the three outcomes: a function of the 9 header bytes
    c = I.choose([sel == 0, sel == 1, z3.And(sel != 0, sel != 1)], 'parse-frame-header', names=['ok', 'invalid-data', 'invalid-frame'])
    if c == 1:
        I.raise_builtin('hyperframe.exceptions.InvalidDataError', node=node)
    if c == 2:
        I.raise_builtin('hyperframe.exceptions.InvalidFrameError', node=node)
    names = sorted(FRAME_DEFS)
    i = I.choose([I.fresh('parsed_class', 'int') == n for n in range(len(names))], 'parsed-frame-class', names=names)
    f = sym_frame(I, 'frame:' + names[i], 'parsed')
    I.heap.get(f).fields['body_len'] = t
    I.heap.get(f).fields['__body_parsed'] = False
    return (f, t)


def frame_parse_body(I, ref, o, args, kwargs, node):
    sel = I.fresh('parse_body_outcome', 'int')
    c = I.choose([sel == 0, sel == 1, sel == 2, z3.And(sel != 0, sel != 1, sel != 2)], 'parse-body',
                 names=['ok', 'invalid-data', 'invalid-frame', 'invalid-padding'])
    if c == 1:
        I.raise_builtin('hyperframe.exceptions.InvalidDataError', node=node)
    if c == 2:
        I.raise_builtin('hyperframe.exceptions.InvalidFrameError', node=node)
    if c == 3:
        I.raise_builtin('hyperframe.exceptions.InvalidPaddingError', node=node)
    o.fields['__body_parsed'] = True       # fields were created in wire range by sym_frame
    return None


for _n in FRAME_DEFS:
    if _n != 'SettingsFrame':
        EXTERN_METHODS[(HF + _n, 'parse_body')] = frame_parse_body


@extern_call('builtins.memoryview')
def bi_memoryview(I, args, kwargs, node):
    return args[0]


# ---------------------------------------------------------------------------
# FrameBuffer._headers_buffer: the frames of an unfinished header block.  Abstract view (first frame, count,
# concatenated payloads) -- the only things frame_buffer.py reads: truthiness, [0], append, len, and
# b''.join(x.data for x in buffer).
AFL = 'abs-framelist'


def sym_framebuf(I, desc, name):
    e = I.fresh(name + '.empty', 'bool')
    c = I.choose([e, z3.Not(e)], 'header-block-open', names=['no', 'yes'])
    if c == 0:
        return I.heap.alloc(ListObj([]))
    fp = I.fresh(name + '.first_is_push', 'bool')
    k = I.choose([fp, z3.Not(fp)], 'block-starts-with', names=['PushPromiseFrame', 'HeadersFrame'])
    first = sym_frame(I, 'frame:' + ('PushPromiseFrame' if k == 0 else 'HeadersFrame'), name + '.first')
    I.assume(z3.Not(I.heap.get(I.heap.get(first).fields['flags']).fields['set']['END_HEADERS']))
    n = I.fresh(name + '.n', 'int')
    I.assume(n >= 1)
    return I.heap.alloc(Obj(AFL, {'first': first, 'n': n, 'joined': I.new_abs(name + '.joined')}))


def opaque_framebuf(I, name='hb'):
    """A header-block buffer of unknown content (only its length is observable): for callers that use
    FrameBuffer.__next__ through its contract."""
    n = I.fresh(name + '.n', 'int')
    I.assume(n >= 0)
    return I.heap.alloc(Obj(AFL, {'first': None, 'n': n, 'joined': I.new_abs(name + '.joined')}))


@extern_method(AFL, '__len__')
def afl_len(I, ref, o, args, kwargs, node):
    return o.fields['n']


@extern_method(AFL, '__bool__')
def afl_bool(I, ref, o, args, kwargs, node):
    return True


@extern_method(AFL, '__getitem__')
def afl_getitem(I, ref, o, args, kwargs, node):
    i = I.int_of(args[0])
    if isinstance(i, int) and i == 0:
        return o.fields['first']
    raise Unsupported('abstract header-frame list index other than 0')


@extern_method(AFL, 'append')
def afl_append(I, ref, o, args, kwargs, node):
    f = I.heap.get(args[0])
    o.fields['n'] = o.fields['n'] + 1
    o.fields['joined'] = I.s_concat(o.fields['joined'], f.fields['data'])
    return None


@extern_method(AFL, '__iter__')
def afl_iter(I, ref, o, args, kwargs, node):
    """Iteration is only used as b''.join(x.data for x in buffer): ONE synthetic element carrying the
    concatenation of all payloads stands for the whole sequence (stated assumption of this model)."""
    USED_MODELS.add('model: FrameBuffer._headers_buffer as (first frame, count, concatenated payloads); iteration yields one synthetic element whose .data is the concatenation')
    yield I.heap.alloc(Obj(HF + 'ContinuationFrame', {'data': o.fields['joined'], 'stream_id': I.heap.get(o.fields['first']).fields['stream_id'],
                                                      'flags': I.heap.get(o.fields['first']).fields['flags'], 'body_len': 0}))
