"""Statement execution (direct style + generator style for generator functions)."""
import ast
import os
import z3
from .values import *  # noqa
from .core import *  # noqa
from . import extract
Z_INT, Z_BOOL = z3.IntSort(), z3.BoolSort()


class GenObj:
    """A running generator (Python generator over interpreter steps)."""

    def __init__(self, pygen, fi):
        self.pygen = pygen
        self.fi = fi
        self.exhausted = False

    def copy(self):
        return self


class StmtMixin:
    def exec_block(self, stmts):
        for s in stmts:
            self.exec_stmt(s)

    def exec_stmt(self, s):
        if extract.is_logger_call(s) or extract.is_docstring(s):
            return      # dropped by the extraction (DESIGN 2.2), counted in evidence
        m = getattr(self, 'ex_' + type(s).__name__, None)
        if m is None:
            raise Unsupported('statement %s at line %s' % (type(s).__name__, s.lineno))
        return m(s)

    def ex_Pass(self, s):
        pass

    def ex_Expr(self, s):
        if isinstance(s.value, ast.Yield):
            raise Unsupported('yield outside generator-mode execution')
        self.eval(s.value)

    def ex_Return(self, s):
        raise ReturnSig(self.eval(s.value) if s.value is not None else None)

    def ex_Break(self, s):
        raise BreakSig()

    def ex_Continue(self, s):
        raise ContinueSig()

    def ex_Global(self, s):
        raise Unsupported('global')

    def ex_Assign(self, s):
        v = self.eval(s.value)
        for t in s.targets:
            self.assign_target(t, v)

    def ex_AnnAssign(self, s):
        if s.value is not None:
            self.assign_target(s.target, self.eval(s.value))

    def ex_AugAssign(self, s):
        cur = self.eval(s.target)
        rhs = self.eval(s.value)
        if isinstance(cur, Ref) and isinstance(s.op, ast.Add):
            o = self.heap.get(cur)
            if isinstance(o, ListObj):
                self.list_extend(cur, rhs)
                return
            if isinstance(o, Obj) and o.cls == 'builtins.bytearray':
                self.bytearray_iadd(cur, rhs)
                return
        self.assign_target(s.target, self.binop(s.op, cur, rhs, s))

    def assign_target(self, t, v):
        if isinstance(t, ast.Name):
            self.frames[-1].locals[t.id] = v
        elif isinstance(t, ast.Attribute):
            base = self.eval(t.value)
            self.setattr(base, t.attr, v, t)
        elif isinstance(t, ast.Subscript):
            base = self.eval(t.value)
            if isinstance(t.slice, ast.Slice):
                lo = self.eval(t.slice.lower) if t.slice.lower is not None else None
                hi = self.eval(t.slice.upper) if t.slice.upper is not None else None
                return self.setslice(base, lo, hi, v, t)
            self.setitem(base, self.eval(t.slice), v, t)
        elif isinstance(t, (ast.Tuple, ast.List)):
            vals = list(self.iter_values(v, t))
            if len(vals) != len(t.elts):
                self.raise_builtin('ValueError', node=t)
            for tt, vv in zip(t.elts, vals):
                self.assign_target(tt, vv)
        else:
            raise Unsupported('assignment target %s' % type(t).__name__)

    def ex_Delete(self, s):
        for t in s.targets:
            if isinstance(t, ast.Subscript):
                self.delitem(self.eval(t.value), self.eval(t.slice), t)
            else:
                raise Unsupported('del target')

    def ex_If(self, s):
        c = self.truth(self.eval(s.test))
        if self.branch(c, 'if@%d' % s.lineno):
            self.exec_block(s.body)
        else:
            self.exec_block(s.orelse)

    def ex_Assert(self, s):
        c = self.truth(self.eval(s.test))
        if not self.branch(c, 'assert@%d' % s.lineno):
            self.raise_builtin('AssertionError', node=s)

    def ex_Raise(self, s):
        if s.exc is None:
            cur = self.frames[-1].cur_exc
            if cur is None:
                raise Unsupported('bare raise outside handler')
            raise cur
        v = self.eval(s.exc)
        if isinstance(v, (ClassV, ExternV)):
            v = self.call_value(v, [], {}, s)
        if not isinstance(v, Ref):
            raise Unsupported('raise of %r' % (v,))
        raise PyRaise(v, self.origin(s))

    def ex_Try(self, s):
        fr = self.frames[-1]
        try:
            try:
                self.exec_block(s.body)
            except PyRaise as pr:
                handled = False
                for h in s.handlers:
                    if h.type is None or self.exc_matches(pr.exc, self.eval(h.type)):
                        handled = True
                        if h.name:
                            fr.locals[h.name] = pr.exc
                        saved = fr.cur_exc
                        fr.cur_exc = pr
                        try:
                            self.exec_block(h.body)
                        finally:
                            fr.cur_exc = saved
                        break
                if not handled:
                    raise
            else:
                self.exec_block(s.orelse)
        finally:
            if s.finalbody:
                self.exec_block(s.finalbody)

    def ex_While(self, s):
        self.loop_while(s)

    def loop_while(self, s):
        n = 0
        while True:
            c = self.truth(self.eval(s.test))
            if not self.branch(c, 'while@%d' % s.lineno):
                self.exec_block(s.orelse)
                return
            n += 1
            if n > self.loop_bound:
                raise Unsupported('while loop at line %d exceeds exact unrolling (%d); needs an invariant'
                                  % (s.lineno, self.loop_bound))
            try:
                self.exec_block(s.body)
            except BreakSig:
                return
            except ContinueSig:
                continue

    loop_bound = 64

    def ex_For(self, s):
        spec_ = self.loop_spec(s)
        if spec_ is not None:
            return self.for_with_invariant(s, spec_)
        it = self.eval(s.iter)
        handler = self.special_for(s, it)
        if handler:
            return
        for v in self.iter_values(it, s):
            self.assign_target(s.target, v)
            try:
                self.exec_block(s.body)
            except BreakSig:
                return
            except ContinueSig:
                continue
        self.exec_block(s.orelse)

    def loop_spec(self, s):
        fr = self.frames[-1]
        C = getattr(self, 'current_contract', None)
        if C is None or fr.fi is None or fr.fi.qualname != C.qualname or not C.loops:
            return None
        return C.loops.get(ast.unparse(s.iter))

    def for_with_invariant(self, s, spec_):
        """Inductive loop rule: the invariant holds on entry (obligation), then from an ARBITRARY state satisfying it
        (loop frame havocked) either the iterable is exhausted -- the code after the loop runs -- or one more
        iteration runs and must re-establish the invariant (obligation), which ends that path.  Exceptions that
        leave the loop from the arbitrary iteration continue as ordinary paths (handlers, function exit)."""
        fr = self.frames[-1]
        spec_frame = self.frames[0]
        it = self.eval(s.iter)

        def inv_obligations(kind):
            extra = dict(fr.locals)
            for cl in spec_['invariant']:
                goal = zbool(self.truth(self.spec_eval_in(spec_frame, cl.ast, extra)))
                self.emit_obligation('%s:%s:%s' % (kind, label, cl.label), goal, cl.expr, cl.props)

        label = 'loop[%s]' % ast.unparse(s.iter)
        mo = self.heap.get(it) if isinstance(it, Ref) else None
        if isinstance(mo, Obj) and mo.cls == 'map-iter':
            return self.for_map_with_invariant(s, spec_, mo, inv_obligations, spec_frame, fr)
        inv_obligations('invariant-entry')
        for t in spec_['modifies']:
            if callable(t):
                t(self, fr.locals)
            else:
                self.havoc_in(spec_frame, t, fr.locals)
        for name, desc in spec_['locals'].items():
            fr.locals[name] = self.sym_value(desc, name)
        for cl in spec_['invariant']:
            self.assume_spec(zbool(self.truth(self.spec_eval_in(spec_frame, cl.ast, dict(fr.locals)))))
            if self.check() == z3.unsat:
                raise Unsupported('loop invariant is unsatisfiable in the arbitrary state (vacuous) at clause: %s' % cl.expr)
        # next element of the (iterator-protocol) iterable
        nxt = None
        if isinstance(it, Ref) and isinstance(self.heap.get(it), Obj) and isinstance(self.heap.get(it).cls, extract.ClassInfo):
            nxt = self.P.lookup_method(self.heap.get(it).cls, '__next__')
        if nxt is None:
            raise Unsupported('loop invariant rule needs an iterator-protocol iterable (%s)' % ast.unparse(s.iter))
        try:
            v = self.call_function(nxt, [it], {}, s)
        except PyRaise as pr:
            if self.exc_matches(pr.exc, ExternV('builtins.StopIteration')):
                self.exec_block(s.orelse)
                return                      # loop finished: continue after it from the arbitrary invariant state
            raise
        self.assign_target(s.target, v)
        try:
            self.exec_block(s.body)
        except BreakSig:
            return
        except ContinueSig:
            pass
        inv_obligations('invariant-preserved')
        raise PathEnd()

    def for_map_with_invariant(self, s, spec_, view, inv_obligations, spec_frame, fr):
        """Inductive rule for `for x in <symbolic map>.values() / .items() / .keys()` (a map of ANY size): a ghost set
        `visited` (subset of the map's keys) names the elements already processed.  Entry: the invariant holds with
        visited = {} (obligation).  Then from an ARBITRARY state satisfying the invariant (loop frame havocked) either
        visited == keys -- the code after the loop runs -- or an arbitrary unvisited key k0 is processed by the real
        body and the invariant must hold again with visited + {k0} (obligation), which ends that path.  No order of
        iteration is assumed.  The loop must not add or remove keys (checked)."""
        mref = view.fields['map']
        m = self.heap.get(mref)
        kind = view.fields['kind']
        dom0 = m.dom
        vis = self.sym_value('smap:bool', 'visited')
        vo = self.heap.get(vis)
        k = z3.Int('vis!k')
        vo.dom = z3.K(Z_INT, z3.BoolVal(False))
        fr.locals['visited'] = vis
        inv_obligations('invariant-entry')
        for t in spec_['modifies']:
            if callable(t):
                t(self, fr.locals)
            else:
                self.havoc_in(spec_frame, t, fr.locals)
        for name, desc in spec_['locals'].items():
            fr.locals[name] = self.sym_value(desc, name)
        m = self.heap.get(mref)
        if m.dom is not dom0 and not z3.eq(m.dom, dom0):
            raise Unsupported('loop frame changes the key set of the iterated map')
        done = self.choose([z3.BoolVal(True), z3.BoolVal(True)], 'map-loop', names=['exhausted', 'next-element'], exclusive=False)
        if done == 0:
            vo.dom = dom0
        else:
            self.counter += 1
            seen = z3.Array('visited!%d' % self.counter, Z_INT, Z_BOOL)
            k0 = self.fresh('loop_key', 'int')
            vo.dom = z3.Lambda([k], z3.And(z3.Select(seen, k), z3.Select(dom0, k)))
            self.assume(z3.And(z3.Select(dom0, k0), z3.Not(z3.Select(seen, k0))))
            self.touch_index(k0)
        for cl in spec_['invariant']:
            f_ = zbool(self.truth(self.spec_eval_in(spec_frame, cl.ast, dict(fr.locals))))
            if os.environ.get('H2VC_DEBUG_LOOP'):
                print('LOOP-INV', done, cl.label, f_)
            self.assume_spec(f_)
            if self.check() == z3.unsat:
                raise Unsupported('loop invariant is unsatisfiable in the arbitrary state (vacuous) at clause: %s' % cl.expr)
        if done == 0:
            self.exec_block(s.orelse)
            return
        if m.elem_cls is not None:
            v = View(mref.oid, zint(k0), '', m.elem_cls)
        else:
            v = self.getitem(mref, k0, s) if kind != 'keys' else None
        self.assign_target(s.target, k0 if kind == 'keys' else (v if kind == 'values' else (k0, v)))
        try:
            self.exec_block(s.body)
        except BreakSig:
            return
        except ContinueSig:
            pass
        m = self.heap.get(mref)
        if m.dom is not dom0 and not z3.eq(m.dom, dom0):
            raise Unsupported('loop body changes the key set of the iterated map')
        prev = vo.dom
        vo.dom = z3.Lambda([k], z3.Or(z3.Select(prev, k), k == k0))
        inv_obligations('invariant-preserved')
        raise PathEnd()

    def spec_eval_in(self, frame, node, extra):
        """spec_eval with `frame` as the evaluation frame (contract-level names) plus extra locals."""
        self.frames.append(frame)
        try:
            return self.spec_eval(node, extra_locals=extra)
        finally:
            self.frames.pop()

    def havoc_in(self, frame, target, extra):
        self.frames.append(frame)
        saved = dict(frame.locals)
        frame.locals.update(extra)
        try:
            self.havoc(target, frame)
        finally:
            frame.locals.clear()
            frame.locals.update(saved)
            self.frames.pop()

    def special_for(self, s, it):
        """Loops over symbolic maps are handled by heapmodel (visited-set rule)."""
        return self.map_loop(s, it)

    def ex_FunctionDef(self, s):
        fr = self.frames[-1]
        fi = extract.FunctionInfo(fr.module, (fr.fi.qualname if fr.fi else '?') + '.' + s.name, s)
        fr.locals[s.name] = FuncV(fi, closure=fr)

    def ex_With(self, s):
        raise Unsupported('with')

    # ------------------------------------------------------------------
    # generator-style execution: a Python generator that yields the values
    # produced by `yield` statements of the interpreted generator function
    def gexec_block(self, stmts):
        for s in stmts:
            yield from self.gexec_stmt(s)

    def gexec_stmt(self, s):
        if extract.is_logger_call(s) or extract.is_docstring(s):
            return
        if isinstance(s, ast.Expr) and isinstance(s.value, ast.Yield):
            yield (self.eval(s.value.value) if s.value.value is not None else None)
            return
        if isinstance(s, ast.Expr) and isinstance(s.value, ast.YieldFrom):
            for v in self.iter_values(self.eval(s.value.value), s):
                yield v
            return
        if isinstance(s, ast.If):
            c = self.truth(self.eval(s.test))
            if self.branch(c, 'if@%d' % s.lineno):
                yield from self.gexec_block(s.body)
            else:
                yield from self.gexec_block(s.orelse)
            return
        if isinstance(s, ast.For):
            it = self.eval(s.iter)
            for v in self.iter_values(it, s):
                self.assign_target(s.target, v)
                try:
                    yield from self.gexec_block(s.body)
                except BreakSig:
                    return
                except ContinueSig:
                    continue
            yield from self.gexec_block(s.orelse)
            return
        if isinstance(s, ast.Try):
            if any(isinstance(n, (ast.Yield, ast.YieldFrom)) for n in ast.walk(s)):
                raise Unsupported('yield inside try')
        if isinstance(s, (ast.While, ast.With)):
            if any(isinstance(n, (ast.Yield, ast.YieldFrom)) for n in ast.walk(s)):
                raise Unsupported('yield inside while/with')
        self.exec_stmt(s)
