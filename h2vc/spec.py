"""Contract language (sidecar).  Contracts are registered by the modules under
/verif/contracts; clause bodies are Python expressions as *source text*, used
(a) symbolically by the interpreter (spec mode) and (b) natively by the replay
harness (eval on real objects)."""
import ast

REGISTRY = {}        # qualname -> Contract
LAYOUTS = {}         # class qualname -> {field: desc}
SPEC_MODULES = []    # paths of spec-function modules (interpreted AND importable)
LEMMAS = {}          # name -> Lemma
MODULAR = set()      # qualnames that callers use through their contract (not inlined)


def modular(qualname):
    MODULAR.add(qualname)


class Clause:
    def __init__(self, label, expr, props=None, when=None):
        self.label = label
        self.expr = expr
        self.props = props       # None -> contract.props
        self.when = when         # optional guard expr (clause applies only when it holds in the pre-state)
        self.ast = ast.parse(expr.strip(), mode='eval').body
        self.when_ast = ast.parse(when.strip(), mode='eval').body if when else None

    def __repr__(self):
        return 'Clause(%s)' % self.label


def _clauses(spec, default_prefix):
    out = []
    if not spec:
        return out
    if isinstance(spec, dict):
        spec = [(k, v) for k, v in spec.items()]
    for i, item in enumerate(spec):
        if isinstance(item, str):
            out.append(Clause('%s%d' % (default_prefix, i), item))
        elif isinstance(item, Clause):
            out.append(item)
        elif isinstance(item, (tuple, list)):
            label, expr = item[0], item[1]
            props = item[2] if len(item) > 2 else None
            when = item[3] if len(item) > 3 else None
            if isinstance(expr, dict):
                out.append(Clause(label, expr['expr'], expr.get('props'), expr.get('when')))
            else:
                out.append(Clause(label, expr, props, when))
    return out


class RaisesClause:
    def __init__(self, exc, when=None, iff=False, props=None, ensures=None, label=None):
        self.exc = exc                  # simple or dotted class name
        self.when = when                # condition over old state under which it MAY be raised
        self.iff = iff                  # normal exit => not when
        self.props = props
        self.label = label or exc
        self.when_ast = ast.parse(when.strip(), mode='eval').body if when else None
        self.ensures = _clauses(ensures, 'exc')   # facts about the exception object (`exc`)


class Contract:
    def __init__(self, qualname, props, args=None, requires=None, ensures=None, raises=None,
                 on_raise=None, ghost=None, ghost_update=None, modifies=None, setup=None,
                 result=None, self_desc=None, let=None, any_raise_ok=False, modular_post=None,
                 note='', unchanged=None, pre_hook=None, canary=None, decreases=None, loops=None, assume_only=None, lazy=False, ghost_call=None):
        self.qualname = qualname
        self.props = list(props)
        self.args = args or {}                # name -> sort descriptor
        self.requires = _clauses(requires, 'req')
        self.ensures = _clauses(ensures, 'ens')
        self.on_raise = _clauses(on_raise, 'onraise')
        self.raises = []
        for r in (raises or []):
            if isinstance(r, str):
                self.raises.append(RaisesClause(r))
            elif isinstance(r, RaisesClause):
                self.raises.append(r)
            else:
                self.raises.append(RaisesClause(**r))
        self.ghost = ghost or {}              # name -> sort descriptor
        self.ghost_update = ghost_update or {}
        # ghost arguments are supplied by the CALLER: name -> callable(interp, locals) giving the instantiation every
        # modular call site uses (default: an arbitrary value, i.e. the requires must hold for all instantiations)
        self.ghost_call = ghost_call or {}
        self.modifies = modifies              # None: unrestricted
        self.setup = setup                    # optional callable(interp, ctx) customising the pre-state
        self.result = result                  # sort descriptor of the result (modular use)
        self.self_desc = self_desc            # e.g. 'obj:h2.windows.WindowManager'
        self.let = let or {}                  # name -> expr (evaluated in the pre-state)
        self.any_raise_ok = any_raise_ok
        self.note = note
        self.unchanged = unchanged or []      # exprs that must equal their old() value on every exit
        self.pre_hook = pre_hook
        self.canary = canary                  # a deliberately false ensures expr that MUST be refuted
        self.modular_post = modular_post
        self.lazy = lazy                      # a generator function: calling it consumes nothing and cannot raise
        self.assume_only = assume_only        # labels of the ensures clauses a MODULAR caller may assume (None: all)
        self.decreases = decreases            # int-valued measure expr for self-recursive calls (must stay >= 0, strictly decrease)
        # loops: {source text of the for-loop's iterable: dict(invariant=[clauses], modifies=[havoc targets | callables],
        #         locals={name: sort descriptor})}  -- keyed by text, never by line number
        self.loops = {}
        for key, spec_ in (loops or {}).items():
            self.loops[key] = dict(invariant=_clauses(spec_.get('invariant'), 'inv'), modifies=spec_.get('modifies', []),
                                   locals=spec_.get('locals', {}), iteration=_clauses(spec_.get('iteration'), 'iter'))
        REGISTRY[qualname] = self


def contract(qualname, **kw):
    props = kw.pop('props')
    return Contract(qualname, props, **kw)


_UNPROVED = {}


def unproved_clauses():
    """Obligation ids of ensures / on_raise clauses that an OPEN known finding says do not hold on the real code.
    Such a clause is reported (KNOWN-FINDING) where it is checked and is never assumed at a modular call site."""
    if 'ids' not in _UNPROVED:
        import json, os
        p = os.path.join(os.path.dirname(os.path.dirname(os.path.abspath(__file__))), 'known_findings.json')
        ids = set()
        if os.path.exists(p):
            for f in json.load(open(p)).get('findings', []):
                if f.get('status') != 'open':
                    continue
                obls = f['obligation'] if isinstance(f['obligation'], list) else [f['obligation']]
                ids.update(o for o in obls if '::ensures[' in o or '::on_raise[' in o)
        _UNPROVED['ids'] = ids
    return _UNPROVED['ids']


def layout(cls_qualname, fields):
    LAYOUTS[cls_qualname] = dict(fields)


def spec_module(path):
    if path not in SPEC_MODULES:
        SPEC_MODULES.append(path)


class Lemma:
    """A property-level consequence of contracts: pure SMT obligation given as
    a function building (assumptions, goal) from z3 -- or as spec-expression
    text over declared variables."""

    def __init__(self, name, props, vars, assumes, goal, note=''):
        self.name, self.props, self.vars = name, props, vars
        self.assumes = [ast.parse(a.strip(), mode='eval').body for a in assumes]
        self.assumes_src = assumes
        self.goal = ast.parse(goal.strip(), mode='eval').body
        self.goal_src = goal
        self.note = note
        LEMMAS[name] = self


def lemma(name, **kw):
    return Lemma(name, **kw)


ZLEMMAS = {}         # name -> (props, build, note): pure SMT lemmas used by modular summaries


def zlemma(name, props, build, note='', prefer=None):
    """A property-level lemma stated directly as z3 terms: build() -> (list of assumptions, goal).  It is
    discharged (assumptions and not goal unsat) in every check of a property it serves."""
    ZLEMMAS[name] = (list(props), build, note, prefer)
