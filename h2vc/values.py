"""Value domain of the symbolic interpreter.

Concrete Python values are kept concrete wherever possible:
  int / bool / None / bytes / str / tuple  -> themselves
Symbolic scalars are z3 expressions (ArithRef for int, BoolRef for bool).
Everything else is one of the classes below.
"""
import z3


class Unsupported(Exception):
    """Construct outside the supported subset: the function is UNDECIDED."""


class BoundedOut(Exception):
    """A path left the explicitly stated bound of a bounded stand-in; it is
    counted and reported, never treated as verified."""


class Opt:
    """Symbolic optional: `isnone` (z3 Bool) and the value when not None."""
    __slots__ = ('isnone', 'val')

    def __init__(self, isnone, val):
        self.isnone, self.val = isnone, val

    def __repr__(self):
        return 'Opt(%s, %r)' % (self.isnone, self.val)


class EnumV:
    """Member of an extracted Enum / IntEnum class; val is int or z3 Int."""
    __slots__ = ('cls', 'val')

    def __init__(self, cls, val):
        self.cls, self.val = cls, val

    @property
    def concrete(self):
        return isinstance(self.val, int)

    def __repr__(self):
        if self.concrete:
            for k, v in self.cls.enum_values.items():
                if v == self.val:
                    return '%s.%s' % (self.cls.name, k)
        return 'EnumV(%s, %s)' % (self.cls.name, self.val)

    def __eq__(self, o):
        return isinstance(o, EnumV) and o.cls is self.cls and self.concrete and o.concrete and o.val == self.val

    def __hash__(self):
        return hash((self.cls.qualname, self.val if self.concrete else id(self)))


class SymStr:
    """Symbolic bytes/str: kind in {'bytes','str'}, s a z3 String expr."""
    __slots__ = ('kind', 's')

    def __init__(self, kind, s):
        self.kind, self.s = kind, s

    def __repr__(self):
        return 'SymStr(%s, %s)' % (self.kind, self.s)


class ZKey:
    """A symbolic (z3 Int) dictionary key, hashable by term identity."""
    __slots__ = ('e',)

    def __init__(self, e):
        self.e = e

    def __eq__(self, o):
        return isinstance(o, ZKey) and o.e.get_id() == self.e.get_id()

    def __hash__(self):
        return hash(('zkey', self.e.get_id()))

    def __repr__(self):
        return 'ZKey(%s)' % self.e


class Ref:
    __slots__ = ('oid',)

    def __init__(self, oid):
        self.oid = oid

    def __repr__(self):
        return 'Ref(%d)' % self.oid

    def __eq__(self, o):
        return isinstance(o, Ref) and o.oid == self.oid

    def __hash__(self):
        return hash(('ref', self.oid))


class View:
    """An element of a MapObj: (map oid, index expr, field-path prefix, class)."""
    __slots__ = ('moid', 'idx', 'prefix', 'cls')

    def __init__(self, moid, idx, prefix, cls):
        self.moid, self.idx, self.prefix, self.cls = moid, idx, prefix, cls

    def __repr__(self):
        return 'View(%d,%s,%r,%s)' % (self.moid, self.idx, self.prefix, getattr(self.cls, 'name', self.cls))


class FuncV:
    __slots__ = ('fi', 'closure')

    def __init__(self, fi, closure=None):
        self.fi, self.closure = fi, closure

    def __repr__(self):
        return 'FuncV(%s)' % self.fi.qualname


class BoundV:
    __slots__ = ('recv', 'fi')

    def __init__(self, recv, fi):
        self.recv, self.fi = recv, fi

    def __repr__(self):
        return 'BoundV(%r, %s)' % (self.recv, self.fi.qualname)


class ClassV:
    __slots__ = ('ci',)

    def __init__(self, ci):
        self.ci = ci

    def __repr__(self):
        return 'ClassV(%s)' % self.ci.qualname

    def __eq__(self, o):
        return isinstance(o, ClassV) and o.ci is self.ci

    def __hash__(self):
        return hash(('cls', self.ci.qualname))


class ExternV:
    """A name from outside h2 (hyperframe, hpack, stdlib) handled by models."""
    __slots__ = ('dotted',)

    def __init__(self, dotted):
        self.dotted = dotted

    def __repr__(self):
        return 'ExternV(%s)' % self.dotted

    def __eq__(self, o):
        return isinstance(o, ExternV) and o.dotted == self.dotted

    def __hash__(self):
        return hash(('ext', self.dotted))


class ModuleV:
    __slots__ = ('name',)

    def __init__(self, name):
        self.name = name


class BuiltinMethod:
    """Method of a builtin/modelled value, e.g. list.append bound to a Ref."""
    __slots__ = ('recv', 'name')

    def __init__(self, recv, name):
        self.recv, self.name = recv, name

    def __repr__(self):
        return 'BuiltinMethod(%r.%s)' % (self.recv, self.name)


class Opaque:
    """An uninterpreted value (message strings, logger...). Never inspected."""
    __slots__ = ('tag',)

    def __init__(self, tag='opaque'):
        self.tag = tag

    def __repr__(self):
        return 'Opaque(%s)' % self.tag


# ---- heap objects ---------------------------------------------------------

class Obj:
    """Instance of an extracted class (cls: ClassInfo) or of a modelled extern
    class (cls: str such as 'hyperframe.frame.DataFrame')."""

    def __init__(self, cls, fields=None):
        self.cls = cls
        self.fields = fields if fields is not None else {}
        self.forward = None      # View once stored into a MapObj

    def copy(self):
        o = Obj(self.cls, dict(self.fields))
        o.forward = self.forward
        return o


class ListObj:
    """Python list with a concrete number of (possibly symbolic) items, plus an
    optional abstract tail (see interp: SymTail)."""

    def __init__(self, items=None, tail=None):
        self.items = items if items is not None else []
        self.tail = tail

    def copy(self):
        return ListObj(list(self.items), self.tail)


class SetObj:
    """Set over a *concrete* universe: elem -> membership (True or z3 Bool)."""

    def __init__(self, elems=None, universe=None):
        self.elems = elems if elems is not None else {}
        self.universe = universe     # None: open (only added elems can be members)

    def copy(self):
        return SetObj(dict(self.elems), self.universe)


class DictObj:
    """dict with concrete keys (insertion ordered)."""

    def __init__(self, items=None):
        self.items = items if items is not None else {}

    def copy(self):
        return DictObj(dict(self.items))


class MapObj:
    """dict with *symbolic* integer keys, struct-of-arrays:
         dom    : Array Int Bool
         arrays : field-path -> z3 Array (Int -> sort of the field)
       elem_cls: ClassInfo of the values (None for scalar-valued maps, which
       use the single path '')."""

    def __init__(self, name, elem_cls, dom, arrays, layout):
        self.name = name
        self.elem_cls = elem_cls
        self.dom = dom
        self.arrays = arrays
        self.layout = layout          # path -> sort descriptor
        self.size = None              # optional z3 Int: number of keys (ghost)

    def copy(self):
        m = MapObj(self.name, self.elem_cls, self.dom, dict(self.arrays), self.layout)
        for k, v in self.__dict__.items():
            if k not in ('arrays',):
                setattr(m, k, list(v) if isinstance(v, list) else v)
        m.arrays = dict(self.arrays)
        return m


def is_z3(v):
    return isinstance(v, z3.ExprRef)


def is_symbolic_int(v):
    return isinstance(v, z3.ArithRef)


def is_int_like(v):
    return (isinstance(v, int) and not isinstance(v, bool)) or isinstance(v, z3.ArithRef)


def is_bool_like(v):
    return isinstance(v, bool) or isinstance(v, z3.BoolRef)
