"""Models of Python builtins and of the stdlib pieces h2 uses.  Models of
hyperframe / hpack live in deps_model.py and are registered into the same
dispatch tables.  Every model here is an ASSUMPTION about code outside /repo
and is listed in the evidence (`trusted_base`)."""
import ast
import z3
from .values import *  # noqa
from .core import *  # noqa
from . import extract
from .stmts import GenObj

EXTERN_CALLS = {}      # dotted -> fn(interp, args, kwargs, node)
EXTERN_ATTRS = {}      # dotted -> value or fn(interp) -> value
EXTERN_METHODS = {}    # (cls-string, method) -> fn(interp, recv_ref, obj, args, kwargs, node)
EXTERN_GETATTR = {}    # cls-string -> fn(interp, ref, obj, attr, node) -> value | NotImplemented
EXTERN_SETATTR = {}    # cls-string -> fn(interp, ref, obj, attr, v, node) -> None | NotImplemented
USED_MODELS = set()    # names of models exercised (for evidence)


def extern_call(name):
    def deco(f):
        EXTERN_CALLS[name] = f
        return f
    return deco


def extern_method(cls, name):
    def deco(f):
        EXTERN_METHODS[(cls, name)] = f
        return f
    return deco


class BuiltinMixin:
    # ------------------------------------------------------------------
    def call_extern(self, dotted, args, kwargs, node=None):
        if dotted.startswith('builtins.'):
            name = dotted[len('builtins.'):]
            m = getattr(self, 'bi_' + name, None)
            if m is not None:
                return m(args, kwargs, node)
            if canon_exc_name(name) is not None:
                return self.heap.alloc(Obj('builtins.' + name, {'args': tuple(args)}))
        if canon_exc_name(dotted) is not None:
            return self.heap.alloc(Obj(canon_exc_name(dotted) if '.' in canon_exc_name(dotted)
                                       else 'builtins.' + canon_exc_name(dotted), {'args': tuple(args)}))
        f = EXTERN_CALLS.get(dotted)
        if f is not None:
            USED_MODELS.add(dotted)
            return f(self, args, kwargs, node)
        raise Unsupported('call of extern %s (line %s)' % (dotted, getattr(node, 'lineno', '?')))

    def extern_getattr(self, base, attr, node):
        if attr == '__name__':
            return base.dotted.split('.')[-1]
        full = base.dotted + '.' + attr
        if full in EXTERN_ATTRS:
            v = EXTERN_ATTRS[full]
            return v(self) if callable(v) else v
        return ExternV(full)

    def extern_obj_getattr(self, ref, o, attr, node, cls=None):
        cls = cls or o.cls
        g = EXTERN_GETATTR.get(cls)
        if g is not None:
            r = g(self, ref, o, attr, node)
            if r is not NotImplemented:
                return r
        if (cls, attr) in EXTERN_METHODS:
            return BuiltinMethod(ref, attr)
        if attr == '__class__':
            return ExternV(cls)
        if attr == 'args':
            return ()
        self.raise_builtin('AttributeError', node=node)

    def extern_obj_setattr(self, ref, o, attr, v, node):
        s = EXTERN_SETATTR.get(o.cls)
        if s is not None:
            return s(self, ref, o, attr, v, node)
        return NotImplemented

    def extern_base_getattr(self, recv, ci, attr, node):
        """Attribute provided by an extern base class of an h2 class."""
        for c in self.P.mro(ci):
            if isinstance(c, tuple):
                base = c[1]
                key = self.extern_base_key(base)
                if (key, attr) in EXTERN_METHODS:
                    return BuiltinMethod(recv, attr)
        return NotImplemented

    def extern_base_key(self, base):
        last = base.split('.')[-1]
        return {'MutableMapping': 'collections.abc.MutableMapping',
                'OrderedDict': 'collections.OrderedDict'}.get(last, base)

    def find_extern_method(self, cls, name):
        if isinstance(cls, extract.ClassInfo):
            for c in self.P.mro(cls):
                if isinstance(c, tuple):
                    f = EXTERN_METHODS.get((self.extern_base_key(c[1]), name))
                    if f:
                        return f
            return None
        f = EXTERN_METHODS.get((cls, name))
        if f:
            return f
        for b in self.EXTERN_SUBCLASS.get(cls, ()):
            f = self.find_extern_method(b, name)
            if f:
                return f
        return None

    def extern_super_model(self, selfv, base, name, args, kwargs, node):
        key = self.extern_base_key(base)
        f = EXTERN_METHODS.get((key, name))
        if f is not None:
            return f(self, selfv, self.heap.get(selfv) if isinstance(selfv, Ref) else None, args, kwargs, node)
        return NotImplemented

    def extern_obj_truth(self, ref, o):
        f = self.find_extern_method(o.cls, '__bool__')
        if f:
            return f(self, ref, o, [], {}, None)
        f = self.find_extern_method(o.cls, '__len__')
        if f:
            return self.truth(f(self, ref, o, [], {}, None))
        return NotImplemented

    def extern_obj_equals(self, a, b):
        for x, y in ((a, b), (b, a)):
            if isinstance(x, Ref):
                o = self.heap.get(x)
                if isinstance(o, Obj):
                    f = EXTERN_METHODS.get((o.cls, '__eq__'))
                    if f:
                        return f(self, x, o, [y], {}, None)
        return NotImplemented

    def iter_map_view(self, o, node):
        mref = o.fields['map']
        m = self.heap.get(mref)
        keys = getattr(m, 'explicit_keys', None)
        if keys is None:
            raise Unsupported('iteration over a symbolic map of unknown size (needs a loop rule or a contract)')
        kind = o.fields['kind']
        for k in list(keys):
            v = View(mref.oid, zint(k), '', m.elem_cls) if m.elem_cls is not None else \
                (self.getitem(mref, k, node) if kind != 'keys' else None)
            if kind == 'keys':
                yield k
            elif kind == 'values':
                yield v
            else:
                yield (k, v)

    def extern_iter_obj(self, ref, o, node):
        if o.cls == 'map-iter':
            return self.iter_map_view(o, node)
        if o.cls in ('mapping-items', 'mapping-keys'):
            # collections.abc ItemsView / KeysView: `for key in mapping: yield (key, mapping[key])`
            return self.iter_mapping_view(o, node)
        f = EXTERN_METHODS.get((o.cls if not isinstance(o.cls, extract.ClassInfo) else None, '__iter__'))
        if f:
            return f(self, ref, o, [], {}, node)
        if isinstance(o.cls, extract.ClassInfo):
            it = self.P.lookup_method(o.cls, '__iter__')
            nx = self.P.lookup_method(o.cls, '__next__')
            if it is not None and nx is not None:
                return self.iter_protocol(ref, nx, node)
            if it is not None:
                # __iter__ that delegates to another iterable (Settings.__iter__ -> dict.__iter__)
                return self.iter_values(self.call_function(it, [ref], {}, node), node)
        return NotImplemented

    def iter_mapping_view(self, o, node):
        mp = o.fields['mapping']
        for k in list(self.iter_values(mp, node)):
            if o.cls == 'mapping-keys':
                yield k
            else:
                yield (k, self.getitem(mp, k, node))

    def iter_protocol(self, ref, nx, node):
        """for x in obj  with user-defined __next__ raising StopIteration."""
        n = 0
        while True:
            n += 1
            if n > self.loop_bound:
                raise Unsupported('iterator protocol loop exceeds exact unrolling; needs an invariant')
            try:
                v = self.call_function(nx, [ref], {}, node)
            except PyRaise as pr:
                if self.exc_matches(pr.exc, ExternV('builtins.StopIteration')):
                    return
                raise
            yield v

    def extern_obj_getitem(self, ref, o, idx, node):
        f = self.find_extern_method(o.cls, '__getitem__')
        if f:
            return f(self, ref, o, [idx], {}, node)
        return NotImplemented

    def extern_obj_setitem(self, ref, o, idx, v, node):
        f = self.find_extern_method(o.cls, '__setitem__')
        if f:
            return f(self, ref, o, [idx, v], {}, node)
        return NotImplemented

    def special_instantiate(self, ci, args, kwargs, node):
        f = EXTERN_CALLS.get('instantiate:' + ci.qualname)
        if f is not None:
            return f(self, args, kwargs, node)
        return NotImplemented

    # ------------------------------------------------------------------
    # builtins
    def bi_len(self, args, kwargs, node):
        v = self.unopt(args[0], node)
        if v is None:
            self.raise_builtin('TypeError', node=node)
        if isinstance(v, (bytes, str, tuple)):
            return len(v)
        if isinstance(v, SymStr):
            return self.s_len(v)
        if isinstance(v, Ref):
            o = self.heap.get(v)
            if isinstance(o, ListObj):
                return self.list_len(o)
            if isinstance(o, DictObj):
                return len(o.items)
            if isinstance(o, SetObj):
                if all(isinstance(m, bool) for m in o.elems.values()):
                    return sum(1 for m in o.elems.values() if m)
                return z3.Sum(*[z3.If(zbool(m), 1, 0) for m in o.elems.values()])
            if isinstance(o, MapObj):
                if o.size is None:
                    raise Unsupported('len of symbolic map without size ghost')
                return o.size
            if isinstance(o, Obj) and o.cls == 'builtins.bytearray':
                return self.str_len(o.fields['data'])
            if isinstance(o, Obj):
                if isinstance(o.cls, extract.ClassInfo):
                    ln = self.P.lookup_method(o.cls, '__len__')
                    if ln is not None:
                        return self.call_function(ln, [v], {}, node)
                    f = None
                    for c in self.P.mro(o.cls):
                        if isinstance(c, tuple):
                            f = EXTERN_METHODS.get((self.extern_base_key(c[1]), '__len__'))
                            if f:
                                break
                    if f:
                        return f(self, v, o, [], {}, node)
                else:
                    f = EXTERN_METHODS.get((o.cls, '__len__'))
                    if f:
                        return f(self, v, o, [], {}, node)
        if isinstance(v, View):
            f = EXTERN_METHODS.get((v.cls, '__len__'))
            if f:
                return f(self, v, None, [], {}, node)
        if isinstance(v, EnumV) or isinstance(v, ClassV) and v.ci.enum_kind:
            pass
        if isinstance(v, ClassV) and v.ci.enum_kind:
            return len(self.enum_info(v.ci))
        raise Unsupported('len of %r' % (v,))

    def _minmax(self, args, node, is_min):
        if len(args) == 1:
            vals = list(self.iter_values(args[0], node))
        else:
            vals = list(args)
        vals = [self.int_of(self.unopt(v, node)) for v in vals]
        acc = vals[0]
        for v in vals[1:]:
            if isinstance(acc, int) and isinstance(v, int):
                acc = min(acc, v) if is_min else max(acc, v)
            else:
                a, b = zint(acc), zint(v)
                acc = z3.If(b < a, b, a) if is_min else z3.If(b > a, b, a)
        return acc

    def bi_min(self, args, kwargs, node):
        return self._minmax(args, node, True)

    def bi_max(self, args, kwargs, node):
        return self._minmax(args, node, False)

    def bi_abs(self, args, kwargs, node):
        v = self.int_of(args[0])
        return abs(v) if isinstance(v, int) else z3.If(v < 0, -v, v)

    def bi_bool(self, args, kwargs, node):
        return self.truth(args[0]) if args else False

    def bi_int(self, args, kwargs, node):
        if not args:
            return 0
        v = self.unopt(args[0], node)
        if v is None:
            self.raise_builtin('TypeError', node=node)
        if str_kind(v):
            return self.parse_int(v, args[1] if len(args) > 1 else 10, node)
        return self.int_of(v)

    def parse_int(self, v, base, node):
        """int(text, 10): abstract partial function parse_ok/parse_val."""
        if not isinstance(v, SymStr):
            try:
                return int(v, base)
            except ValueError:
                self.raise_builtin('ValueError', node=node)
        ok = z3.Function('int_parse_ok', Z_STR_, z3.BoolSort())(v.s)
        val = z3.Function('int_parse_val', Z_STR_, z3.IntSort())(v.s)
        USED_MODELS.add('builtins.int(text): abstract partial function (parse_ok, parse_val)')
        if not self.branch(ok, 'intparse@%s' % getattr(node, 'lineno', '?')):
            self.raise_builtin('ValueError', node=node)
        return val

    def bi_isinstance(self, args, kwargs, node):
        v, t = args
        return self.isinstance_(v, t, node)

    def isinstance_(self, v, t, node=None):
        if isinstance(t, tuple):
            return zor(*[self.isinstance_(v, x, node) for x in t])
        if isinstance(v, Opt):
            if isinstance(t, ExternV) and t.dotted in ('builtins.type', ):
                pass
            inner = self.isinstance_(v.val, t, node) if v.val is not None else False
            is_nonetype = isinstance(t, ExternV) and t.dotted == 'builtins.NoneType'
            return zor(zand(v.isnone, is_nonetype), zand(znot(v.isnone), inner))
        if isinstance(t, ExternV):
            d = t.dotted
            if d == 'builtins.int':
                return is_int_like(v) or is_bool_like(v) or (isinstance(v, EnumV) and v.cls.enum_kind == 'IntEnum')
            if d == 'builtins.bool':
                return is_bool_like(v)
            if d == 'builtins.bytes':
                return str_kind(v) == 'bytes'
            if d == 'builtins.str':
                return str_kind(v) == 'str'
            if d == 'builtins.tuple':
                return isinstance(v, tuple) or self.extern_isinstance(v, d)
            if d == 'builtins.memoryview':
                return False
            if d == 'builtins.NoneType':
                return v is None
            return self.extern_isinstance(v, d)
        if isinstance(t, ClassV):
            if isinstance(v, EnumV):
                return v.cls is t.ci
            if isinstance(v, (Ref, View)):
                c = self.obj_class(v) if not isinstance(v, Ref) or isinstance(self.heap.get(v), Obj) else None
                if isinstance(c, extract.ClassInfo):
                    return self.P.is_subclass(c, t.ci)
            return False
        if isinstance(t, Ref):
            o = self.heap.get(t)
            if isinstance(o, Obj) and o.cls == 'namedtuple-class':
                return isinstance(v, Ref) and isinstance(self.heap.get(v), Obj) and self.heap.get(v).cls is o
        raise Unsupported('isinstance against %r' % (t,))

    def extern_isinstance(self, v, dotted):
        if isinstance(v, Ref):
            o = self.heap.get(v)
            if isinstance(o, Obj):
                if isinstance(o.cls, str):
                    return self.extern_class_is_subclass(o.cls, dotted)
                for c in self.P.mro(o.cls):
                    if isinstance(c, tuple) and self.extern_class_is_subclass(c[1], dotted):
                        return True
            if isinstance(o, ListObj):
                return dotted == 'builtins.list'
            if isinstance(o, DictObj):
                return dotted == 'builtins.dict'
            if isinstance(o, SetObj):
                return dotted in ('builtins.set', 'builtins.frozenset')
        return False

    EXTERN_SUBCLASS = {}      # cls-string -> tuple of base cls-strings

    def extern_class_is_subclass(self, c, base):
        if c == base or c.split('.')[-1] == base.split('.')[-1]:
            return True
        if canon_exc_name(c) and canon_exc_name(base):
            return extern_exc_is_subclass(c, base)
        for b in self.EXTERN_SUBCLASS.get(c, ()):
            if self.extern_class_is_subclass(b, base):
                return True
        return False

    def bi_type(self, args, kwargs, node):
        v = args[0]
        if v is None:
            return ExternV('builtins.NoneType')
        if isinstance(v, (Ref, View)):
            c = self.obj_class(v)
            return ClassV(c) if isinstance(c, extract.ClassInfo) else ExternV(c)
        raise Unsupported('type() of %r' % (v,))

    def bi_all(self, args, kwargs, node):
        vals = [self.truth(v) for v in self.iter_values(args[0], node)]
        return zand(*vals)

    def bi_any(self, args, kwargs, node):
        vals = [self.truth(v) for v in self.iter_values(args[0], node)]
        return zor(*vals)

    def bi_list(self, args, kwargs, node):
        if not args:
            return self.heap.alloc(ListObj([]))
        v = args[0]
        from . import hdrmodel
        if hdrmodel.is_hdr(self, v):
            return hdrmodel.list_of_hdr(self, v, node)
        if isinstance(v, Ref) and isinstance(self.heap.get(v), ListObj) and self.heap.get(v).tail is not None:
            return self.heap.alloc(self.heap.get(v).copy())
        return self.heap.alloc(ListObj(list(self.iter_values(v, node))))

    def bi_tuple(self, args, kwargs, node):
        return tuple(self.iter_values(args[0], node)) if args else ()

    def bi_sorted(self, args, kwargs, node):
        raise Unsupported('sorted')

    def bi_range(self, args, kwargs, node):
        vals = [self.int_of(self.unopt(a, node)) for a in args]
        if all(isinstance(v, int) for v in vals):
            return tuple(range(*vals))
        return self.symbolic_range(vals, node)

    RANGE_UNROLL = 3

    def symbolic_range(self, vals, node):
        """range(0, L, m) with symbolic L, m > 0: exact unrolling up to
        RANGE_UNROLL steps, beyond that the path is BOUNDED OUT (reported)."""
        if len(vals) != 3 or not (isinstance(vals[0], int) and vals[0] == 0):
            raise Unsupported('range with symbolic bounds')
        L, m = zint(vals[1]), zint(vals[2])
        if not self.branch(m > 0, 'range-step-positive'):
            raise Unsupported('range with non-positive symbolic step')
        K = self.RANGE_UNROLL
        conds = [L <= 0] + [z3.And((k - 1) * m < L, L <= k * m) for k in range(1, K + 1)] + [L > K * m]
        c = self.choose(conds, 'range-steps', names=[str(i) for i in range(K + 1)] + ['>%d' % K])
        if c == K + 1:
            self.bounds_hit.add('range(0, len, step) unrolled to %d steps at line %s' % (K, getattr(node, 'lineno', '?')))
            raise BoundedOut('range unrolling bound %d' % K)
        self.bounds_used.add('range(0, len, step) unrolled exactly up to %d steps (line %s of %s)'
                             % (K, getattr(node, 'lineno', '?'), self.frames[-1].fi.qualname if self.frames[-1].fi else '?'))
        return tuple(z3.simplify(i * m) if i else 0 for i in range(c))

    def bi_set(self, args, kwargs, node):
        if not args:
            return self.heap.alloc(SetObj({}))
        return self.heap.alloc(SetObj({self.hashable(v): True for v in self.iter_values(args[0], node)}))

    bi_frozenset = bi_set

    def bi_dict(self, args, kwargs, node):
        if args:
            raise Unsupported('dict(x)')
        return self.heap.alloc(DictObj(dict(kwargs)))

    def bi_map(self, args, kwargs, node):
        f = args[0]
        return self.heap.alloc(ListObj([self.call_value(f, [v], {}, node) for v in self.iter_values(args[1], node)]))

    def bi_ord(self, args, kwargs, node):
        v = args[0]
        if isinstance(v, str) and len(v) == 1:
            return ord(v)
        raise Unsupported('ord of symbolic')

    def bi_bytes(self, args, kwargs, node):
        if not args:
            return b''
        v = args[0]
        if str_kind(v) == 'bytes':
            return v
        if isinstance(v, Ref):
            o = self.heap.get(v)
            if isinstance(o, Obj) and o.cls == 'builtins.bytearray':
                return o.fields['data']
        raise Unsupported('bytes(%r)' % (v,))

    def bi_bytearray(self, args, kwargs, node):
        data = b''
        if args:
            data = self.bi_bytes(args, kwargs, node)
        return self.heap.alloc(Obj('builtins.bytearray', {'data': data}))

    def bi_memoryview(self, args, kwargs, node):
        return args[0]       # read-only view of bytes: same content

    def bi_str(self, args, kwargs, node):
        return Opaque('str()')

    def bi_repr(self, args, kwargs, node):
        return Opaque('repr()')

    def bi_getattr(self, args, kwargs, node):
        if isinstance(args[1], str):
            return self.getattr(args[0], args[1], node)
        raise Unsupported('getattr with computed name')

    def bi_setattr(self, args, kwargs, node):
        if isinstance(args[1], str):
            return self.setattr(args[0], args[1], args[2], node)
        raise Unsupported('setattr with computed name')

    def bi_print(self, args, kwargs, node):
        return None

    # spec helpers (also usable from code in spec modules)
    def bi_implies(self, args, kwargs, node):
        return zor(znot(self.truth(args[0])), self.truth(args[1]))

    def bi_iff(self, args, kwargs, node):
        a, b = zbool(self.truth(args[0])), zbool(self.truth(args[1]))
        return a == b

    def bi_ite(self, args, kwargs, node):
        return self.merge_ite(zbool(self.truth(args[0])), args[1], args[2])

    # ------------------------------------------------------------------
    # bytearray (H2Connection._data_to_send)
    def bytearray_iadd(self, ref, rhs):
        o = self.heap.get(ref)
        if isinstance(rhs, Ref):
            rhs = self.bi_bytes([rhs], {}, None)
        if str_kind(rhs) != 'bytes':
            raise Unsupported('bytearray += %r' % (rhs,))
        cur = o.fields['data']
        o.fields['data'] = self.s_concat(cur, rhs)

    def bytearray_slice(self, ref, o, lo, hi, node):
        data = self.str_slice(o.fields['data'], lo, hi, node)
        return self.heap.alloc(Obj('builtins.bytearray', {'data': data}))

    # ------------------------------------------------------------------
    def call_builtin_method(self, recv, name, args, kwargs, node):
        if isinstance(recv, Ref):
            o = self.heap.get(recv)
            if isinstance(o, ListObj):
                return self.list_method(recv, o, name, args, node)
            if isinstance(o, SetObj):
                return self.set_method(recv, o, name, args, node)
            if isinstance(o, DictObj):
                return self.dict_method(recv, o, name, args, kwargs, node)
            if isinstance(o, MapObj):
                return self.map_method(recv, o, name, args, kwargs, node)
            if isinstance(o, Obj):
                keys = []
                if isinstance(o.cls, extract.ClassInfo):
                    for c in self.P.mro(o.cls):
                        if isinstance(c, tuple):
                            keys.append(self.extern_base_key(c[1]))
                else:
                    keys.append(o.cls)
                    keys.extend(self.EXTERN_SUBCLASS.get(o.cls, ()))
                for k in keys:
                    f = EXTERN_METHODS.get((k, name))
                    if f is not None:
                        USED_MODELS.add('%s.%s' % (k, name))
                        return f(self, recv, o, args, kwargs, node)
            raise Unsupported('method %s on %r' % (name, getattr(o, 'cls', type(o).__name__)))
        if isinstance(recv, View):
            f = EXTERN_METHODS.get((recv.cls, name))
            if f is not None:
                return f(self, recv, None, args, kwargs, node)
        if str_kind(recv):
            return self.str_method(recv, name, args, kwargs, node)
        if isinstance(recv, tuple):
            if name == 'index' or name == 'count':
                raise Unsupported('tuple.' + name)
        raise Unsupported('method %s on %r' % (name, recv))

    def list_method(self, ref, o, name, args, node):
        if name == 'append':
            if o.tail is not None:
                raise Unsupported('append to abstract-tail list')
            o.items.append(args[0])
            return None
        if name == 'extend':
            self.list_extend(ref, args[0])
            return None
        if name == 'pop':
            if o.tail is not None:
                raise Unsupported('pop from abstract-tail list')
            if not o.items:
                self.raise_builtin('IndexError', node=node)
            return o.items.pop(*[self.int_of(a) for a in args])
        if name == 'insert':
            o.items.insert(self.int_of(args[0]), args[1])
            return None
        raise Unsupported('list.' + name)

    def set_method(self, ref, o, name, args, node):
        if name == 'add':
            o.elems[self.hashable(args[0])] = True
            return None
        if name == 'discard':
            k = self.hashable(args[0])
            if k in o.elems:
                o.elems[k] = False
            return None
        if name == '__contains__':
            return self.set_contains(o, args[0])
        raise Unsupported('set.' + name)

    def dict_method(self, ref, o, name, args, kwargs, node):
        uz = lambda k: k.e if isinstance(k, ZKey) else k
        if name == 'items':
            return self.heap.alloc(ListObj([(uz(k), v) for k, v in o.items.items()]))
        if name == 'keys':
            return self.heap.alloc(ListObj([uz(k) for k in o.items.keys()]))
        if name == 'values':
            return self.heap.alloc(ListObj(list(o.items.values())))
        if name == 'get':
            try:
                return self.dict_lookup(o, args[0], node)
            except PyRaise as pr:
                if self.exc_matches(pr.exc, ExternV('builtins.KeyError')):
                    return args[1] if len(args) > 1 else None
                raise
        if name == 'pop':
            k = self.hashable(args[0])
            if k in o.items:
                return o.items.pop(k)
            if len(args) > 1:
                return args[1]
            self.raise_builtin('KeyError', node=node)
        if name == '__iter__':
            return self.heap.alloc(ListObj([uz(k) for k in o.items.keys()]))
        if name == 'update':
            src = args[0]
            for k in self.iter_values(src, node):
                o.items[self.hashable(k)] = self.getitem(src, k, node)
            return None
        raise Unsupported('dict.' + name)

    def map_method(self, ref, m, name, args, kwargs, node):
        if name == 'pop':
            v = self.map_lookup(ref, m, args[0], node)
            if isinstance(v, View):
                v = self.materialize_view(v)
            self.map_remove(m, args[0])
            return v
        if name == 'get':
            key = self.unopt(args[0], node)
            k = zint(self.int_of(key))
            if self.branch(z3.Select(m.dom, k), 'mapget@%s' % getattr(node, 'lineno', '?')):
                return self.map_lookup(ref, m, key, node)
            return args[1] if len(args) > 1 else None
        if name in ('values', 'items', 'keys'):
            return self.heap.alloc(Obj('map-iter', {'map': ref, 'kind': name}))
        if name == '__iter__':
            return self.heap.alloc(Obj('map-iter', {'map': ref, 'kind': 'keys'}))
        raise Unsupported('map.' + name)

    # ------------------------------------------------------------------
    def str_method(self, recv, name, args, kwargs, node):
        kind = str_kind(recv)
        conc = not isinstance(recv, SymStr) and all(not isinstance(a, SymStr) for a in args)
        if name == 'startswith':
            p = args[0]
            if str_kind(p) != kind:
                self.raise_builtin('TypeError', node=node)
            if conc:
                return recv.startswith(p)
            return z3.PrefixOf(to_zstr(p), to_zstr(recv))
        if name == 'endswith':
            p = args[0]
            if conc:
                return recv.endswith(p)
            return z3.SuffixOf(to_zstr(p), to_zstr(recv))
        if name in ('lower', 'strip', 'upper'):
            if conc and not args:
                return getattr(recv, name)()
            return self.str_transform(recv, name, args, node)
        if name == 'encode':
            return self.str_codec(recv, 'encode', args, node)
        if name == 'decode':
            return self.str_codec(recv, 'decode', args, node)
        if name == 'join':
            return self.str_join(recv, args[0], node)
        if name == 'tobytes':
            return recv
        if name in ('islower', 'isupper') and not args:
            if conc:
                return getattr(recv, name)()
            if kind != 'bytes':
                raise Unsupported('str.%s on a symbolic str (Unicode case tables are not modelled; bytes only)' % name)
            # bytes.islower(): at least one ASCII lowercase letter and no ASCII uppercase letter (and dually)
            from .strmodel import contains_char_in
            USED_MODELS.add('bytes.islower / bytes.isupper: ASCII case classes [a-z] / [A-Z] (CPython bytes semantics)')
            lo, up = contains_char_in(to_zstr(recv), [(97, 122)]), contains_char_in(to_zstr(recv), [(65, 90)])
            return z3.And(lo, z3.Not(up)) if name == 'islower' else z3.And(up, z3.Not(lo))
        raise Unsupported('str method ' + name)

    def str_transform(self, recv, name, args, node):
        raise Unsupported('symbolic str.%s' % name)

    def str_codec(self, recv, direction, args, node):
        raise Unsupported('symbolic str.%s' % direction)

    def str_join(self, sep, it, node):
        vals = list(self.iter_values(it, node))
        kind = str_kind(sep)
        if all(not isinstance(v, SymStr) for v in vals) and not isinstance(sep, SymStr):
            for v in vals:
                if str_kind(v) != kind:
                    self.raise_builtin('TypeError', node=node)
            return sep.join(vals)
        acc = None
        for i, v in enumerate(vals):
            if str_kind(v) != kind:
                self.raise_builtin('TypeError', node=node)
            if acc is None:
                acc = v
            else:
                acc = self.s_concat(self.s_concat(acc, sep), v)
        if acc is None:
            return b'' if kind == 'bytes' else ''
        return acc


Z_STR_ = z3.StringSort()
