"""Specification-mode helpers: old(), quantifiers, symbolic pre-state builders."""
import ast
import z3
from .values import *  # noqa
from .core import *  # noqa
from . import extract


class SpecMixin:
    def spec_eval(self, node, extra_locals=None):
        """Evaluate a spec expression (pure; no forking) in the current frame."""
        self.spec_mode += 1
        fr = self.frames[-1]
        saved = None
        if extra_locals:
            saved = dict(fr.locals)
            fr.locals.update(extra_locals)
        try:
            return self.eval(node)
        except PyRaise as pr:
            raise Unsupported('specification expression raised %s: %s' % (self.exc_class_name(pr.exc), ast.unparse(node)))
        finally:
            if saved is not None:
                fr.locals.clear()
                fr.locals.update(saved)
            self.spec_mode -= 1

    def spec_bool(self, node, extra_locals=None):
        v = self.spec_eval(node, extra_locals)
        return zbool(self.truth(v))

    def spec_special(self, e):
        name = e.func.id
        if name == 'implies':
            a = simp_bool(self.truth(self.eval(e.args[0])))
            if a is False:
                return True
            try:
                b = self.truth(self.eval(e.args[1]))
            except PyRaise:
                if a is True:
                    raise Unsupported('specification expression is undefined: %s' % ast.unparse(e))
                b = False       # undefined consequent under a symbolic guard: fail conservatively
            return zor(znot(a), b)
        if name == 'old':
            if self.old_heap is None:
                raise Unsupported('old() without a pre-state snapshot')
            cur_heap, cur_ghost = self.heap, self.ghost
            fr = self.frames[-1]
            cur_locals = fr.locals
            self.heap, self.ghost = self.old_heap, self.old_ghost
            self.old_heap.fallback = cur_heap
            fr.locals = dict(self.old_locals)
            # names bound by enclosing quantifiers stay visible
            for k, v in cur_locals.items():
                if k.startswith('_q_') or k in self.quant_vars or (k not in self.old_locals and k not in ('result', 'exc')):
                    fr.locals[k] = v
            prev_in_old = self.in_old
            self.in_old = True
            try:
                v = self.eval(e.args[0])
                v = self.detach(v, self.old_heap, cur_heap)
                return v
            finally:
                self.in_old = prev_in_old
                self.heap, self.ghost = cur_heap, cur_ghost
                fr.locals = cur_locals
        if name in ('forall_int', 'exists_int'):
            # forall_int('k', <expr over k>)
            var = e.args[0].value
            self.counter += 1
            k = z3.Int('%s!q%d' % (var, self.counter))
            fr = self.frames[-1]
            had = var in fr.locals
            prev = fr.locals.get(var)
            fr.locals[var] = k
            self.quant_vars.add(var)
            try:
                body = zbool(self.truth(self.eval(e.args[1])))
            finally:
                self.quant_vars.discard(var)
                if had:
                    fr.locals[var] = prev
                else:
                    del fr.locals[var]
            return z3.ForAll([k], body) if name == 'forall_int' else z3.Exists([k], body)
        raise Unsupported('spec form ' + name)

    quant_vars = set()

    def spec_quantifier(self, kind, gen):
        """all(P(k) for k in <symbolic map>)  ->  ForAll k. k in dom => P(k)
        (dual-use: the same text evaluates natively on a real dict)."""
        if len(gen.generators) != 1 or gen.generators[0].ifs or not isinstance(gen.generators[0].target, ast.Name):
            return NotImplemented
        it = self.eval(gen.generators[0].iter)
        if isinstance(it, Ref) and isinstance(self.heap.get(it), Obj) and '_od' in self.heap.get(it).fields:
            it = self.heap.get(it).fields['_od']        # OrderedDict subclass (SizeLimitDict): quantify over its map
        if not (isinstance(it, Ref) and isinstance(self.heap.get(it), MapObj)):
            return NotImplemented
        m = self.heap.get(it)
        var = gen.generators[0].target.id
        keys = getattr(m, 'explicit_keys', None)
        if keys is not None:
            # a map whose key set is an explicit (bounded stand-in) list: the quantifier is a finite conjunction /
            # disjunction over exactly those keys -- quantifier-free, hence stable and fast
            fr = self.frames[-1]
            had, prev = var in fr.locals, fr.locals.get(var)
            self.quant_vars.add(var)
            parts = []
            try:
                for kk in keys:
                    fr.locals[var] = kk
                    parts.append(z3.And(z3.Select(m.dom, zint(kk)), zbool(self.truth(self.eval(gen.elt)))) if kind == 'any'
                                 else z3.Implies(z3.Select(m.dom, zint(kk)), zbool(self.truth(self.eval(gen.elt)))))
            finally:
                self.quant_vars.discard(var)
                if had:
                    fr.locals[var] = prev
                else:
                    fr.locals.pop(var, None)
            if not parts:
                return kind == 'all'
            return z3.And(*parts) if kind == 'all' else z3.Or(*parts)
        self.counter += 1
        k = z3.Int('%s!q%d' % (var, self.counter))
        fr = self.frames[-1]
        had, prev = var in fr.locals, fr.locals.get(var)
        fr.locals[var] = k
        self.quant_vars.add(var)
        self.bound_vars.append(k)
        try:
            body = zbool(self.truth(self.eval(gen.elt)))
        finally:
            self.bound_vars.pop()
            self.quant_vars.discard(var)
            if had:
                fr.locals[var] = prev
            else:
                del fr.locals[var]
        dom = z3.Select(m.dom, k)
        if kind == 'all':
            return z3.ForAll([k], z3.Implies(dom, body))
        return z3.Exists([k], z3.And(dom, body))

    def detach(self, v, src, dst):
        """Copy a mutable builtin container read in the old heap into the
        current heap, so that `x == old(x)` compares contents, not identity."""
        if isinstance(v, Ref):
            o = src.objs.get(v.oid)
            if isinstance(o, ListObj):
                return dst.alloc(ListObj([self.detach(x, src, dst) for x in o.items], o.tail))
            if isinstance(o, Obj) and o.cls == 'builtins.bytearray':
                return dst.alloc(Obj('builtins.bytearray', dict(o.fields)))
            if isinstance(o, Obj) and o.cls == 'hyperframe.flags.Flags':
                return dst.alloc(Obj(o.cls, dict(o.fields)))
            if isinstance(o, DictObj):
                return dst.alloc(DictObj({k: self.detach(x, src, dst) for k, x in o.items.items()}))
            if isinstance(o, MapObj):
                return dst.alloc(o.copy())        # frozen copy of the old arrays
            if isinstance(o, Obj) and isinstance(o.cls, extract.ClassInfo) and '_od' in o.fields:
                c = o.copy()
                c.fields['_od'] = self.detach(o.fields['_od'], src, dst)
                return dst.alloc(c)
        if isinstance(v, tuple):
            return tuple(self.detach(x, src, dst) for x in v)
        return v

    # ------------------------------------------------------------------
    # symbolic values from sort descriptors
    def sym_value(self, desc, name):
        if desc == 'int':
            return self.fresh(name, 'int')
        if desc == 'nat':
            v = self.fresh(name, 'int')
            self.assume(v >= 0)
            return v
        if desc == 'bool':
            return self.fresh(name, 'bool')
        if desc == 'bytes':
            return self.new_abs(name)
        if desc in ('str', 'hbytes', 'hstr'):
            return SymStr({'hbytes': 'bytes', 'hstr': 'str'}.get(desc, desc), self.fresh(name, 'str'))
        if desc.startswith('enum:'):
            ci = self.class_named(desc[5:])
            v = self.fresh(name, 'int')
            vals = sorted(set(self.enum_info(ci).values()))
            self.assume(z3.Or(*[v == x for x in vals]))
            return EnumV(ci, v)
        if desc.startswith('opt'):
            inner = self.sym_value(desc[3:], name)
            return Opt(self.fresh(name + '?', 'bool'), inner)
        if desc.startswith('obj:'):
            return self.sym_obj(self.class_named(desc[4:]), name)
        if desc.startswith('map:'):
            return self.new_sym_map(name, self.class_named(desc[4:]))
        if desc.startswith('smap:'):
            ref = self.new_sym_map(name, None, scalar_desc=desc[5:])
            return ref
        if desc == 'none':
            return None
        if desc == 'opaque':
            return Opaque(name)
        if desc == 'list':
            return self.heap.alloc(ListObj([]))
        if desc == 'bytearray':
            return self.heap.alloc(Obj('builtins.bytearray', {'data': self.new_abs(name)}))
        if desc == 'closedstreams':
            ci = self.class_named('h2.utilities.SizeLimitDict')
            m = self.new_sym_map(name, None, scalar_desc='optenum:StreamClosedBy')
            mo = self.heap.get(m)
            mo.size = self.fresh(name + '.size', 'int')
            self.assume(mo.size >= 0)
            lim = self.fresh(name + '.limit', 'int')
            self.assume(lim >= 0)
            return self.heap.alloc(Obj(ci, {'_size_limit': lim, '_od': m}))
        if desc == 'dispatch':
            return None      # filled by the contract's setup (needs `self`)
        if desc.startswith('const:'):
            return eval(desc[6:], {})
        if desc == 'hvflags':
            # a HeaderValidationFlags namedtuple with symbolic members
            mod = self.P.modules['h2.utilities']
            clsref = self.global_value(self.P.resolve_name(mod, 'HeaderValidationFlags'), 'HeaderValidationFlags')
            clso = self.heap.get(clsref)
            return self.heap.alloc(Obj(clso, {'is_client': self.sym_value('optbool', name + '.is_client'),
                                               'is_trailer': self.fresh(name + '.is_trailer', 'bool'),
                                               'is_response_header': self.fresh(name + '.is_response', 'bool'),
                                               'is_push_promise': self.fresh(name + '.is_push', 'bool')}))
        if desc == 'framebuf':
            from .deps_model import sym_framebuf
            return sym_framebuf(self, desc, name)
        if desc == 'hdrlist':
            from .hdrmodel import sym_hdrlist
            return sym_hdrlist(self, desc, name)
        if desc.startswith('frame:'):
            from .deps_model import sym_frame
            return sym_frame(self, desc, name)
        b = self.sym_builders.get(desc.split(':')[0])
        if b is not None:
            return b(self, desc, name)
        raise Unsupported('sort descriptor %s' % desc)

    sym_builders = {}

    def post_build(self, cls, ref, name):
        """Class-specific completion of a symbolic object."""
        qn = cls.qualname if isinstance(cls, extract.ClassInfo) else cls
        o = self.heap.get(ref)
        if qn == 'h2.connection.H2Connection':
            streams = self.heap.get(o.fields['streams'])
            streams.shared['config'] = o.fields['config']
            for st in (o.fields['local_settings'], o.fields['remote_settings']):
                pass

    def sym_obj(self, cls, name):
        fields = {}
        ref = self.heap.alloc(Obj(cls, fields))
        for f, d in self.layout_of(cls).items():
            if d == 'shared':
                continue
            fields[f] = self.sym_value(d, '%s.%s' % (name, f))
        self.post_build(cls, ref, name)
        return ref

    # ------------------------------------------------------------------
    def model_value(self, model, v):
        """Concrete Python value of an interpreter value under a z3 model."""
        if isinstance(v, z3.ExprRef):
            r = model.eval(v, model_completion=True)
            if z3.is_int_value(r):
                return r.as_long()
            if z3.is_true(r):
                return True
            if z3.is_false(r):
                return False
            if z3.is_string_value(r):
                return r.as_string()
            return str(r)
        if isinstance(v, Opt):
            if self.model_value(model, zbool(v.isnone)):
                return None
            return self.model_value(model, v.val)
        if isinstance(v, EnumV):
            x = self.model_value(model, zint(v.val))
            for k, val in self.enum_info(v.cls).items():
                if val == x:
                    return '%s.%s' % (v.cls.name, k)
            return x
        if isinstance(v, SymStr):
            s = self.model_value(model, v.s)
            return {'kind': v.kind, 'text': s}
        if isinstance(v, bytes):
            return {'kind': 'bytes', 'text': v.decode('latin-1')}
        if isinstance(v, tuple):
            return [self.model_value(model, x) for x in v]
        if isinstance(v, Ref):
            o = self.heap.get(v)
            if isinstance(o, Obj):
                return {'__class__': o.cls.qualname if isinstance(o.cls, extract.ClassInfo) else str(o.cls),
                        'fields': {k: self.model_value(model, x) for k, x in o.fields.items()
                                   if not isinstance(x, (FuncV, BoundV))}}
            if isinstance(o, ListObj):
                return [self.model_value(model, x) for x in o.items]
            if isinstance(o, MapObj):
                return {'__map__': o.name}
            return repr(o)
        if isinstance(v, (int, bool, str, type(None))):
            return v
        return repr(v)
