"""Expression evaluation."""
import ast
import z3
from .values import *  # noqa
from .core import *  # noqa
from . import extract

BUILTIN_NAMES = {
    'len', 'min', 'max', 'int', 'bool', 'isinstance', 'all', 'any', 'list', 'tuple',
    'range', 'bytes', 'str', 'bytearray', 'memoryview', 'set', 'frozenset', 'map',
    'ord', 'type', 'super', 'getattr', 'setattr', 'dict', 'sorted', 'enumerate', 'zip',
    'abs', 'sum', 'repr', 'object', 'property', 'staticmethod', 'classmethod', 'print',
    # spec-only helpers
    'old', 'implies', 'iff', 'ite', 'forall_int', 'exists_int',
}
BUILTIN_EXC = {'KeyError', 'IndexError', 'ValueError', 'TypeError', 'AssertionError',
               'AttributeError', 'StopIteration', 'Exception', 'BaseException',
               'UnicodeDecodeError', 'UnicodeEncodeError', 'UnicodeError', 'LookupError',
               'NotImplementedError', 'RuntimeError', 'OverflowError', 'ZeroDivisionError'}


class ExprMixin:
    # ------------------------------------------------------------------
    def eval(self, e):
        m = getattr(self, 'ev_' + type(e).__name__, None)
        if m is None:
            raise Unsupported('expression %s at line %s' % (type(e).__name__, getattr(e, 'lineno', '?')))
        return m(e)

    def ev_Constant(self, e):
        return e.value

    def ev_JoinedStr(self, e):
        return Opaque('fstring')

    def ev_Name(self, e):
        return self.lookup(e.id, e)

    def lookup(self, name, node=None):
        fr = self.frames[-1]
        if name in fr.locals:
            return fr.locals[name]
        cl = fr.closure
        while cl is not None:
            if name in cl.locals:
                return cl.locals[name]
            cl = cl.closure
        if name in ('g_out', 'g_enc', 'g_dec', 'g_nframes', 'g_ngoaway', 'g_nencode') and self.spec_mode:
            if self.in_old and name != 'g_out':
                return self.old_ghost[name]
            return getattr(self, name)
        if name in self.spec_env and self.spec_mode:
            return self.spec_env[name]
        r = self.P.resolve_name(fr.module, name) if fr.module is not None else None
        if r is not None:
            return self.global_value(r, name)
        if name in self.spec_env:
            return self.spec_env[name]
        if name in BUILTIN_EXC:
            return ExternV('builtins.' + name)
        if name in BUILTIN_NAMES:
            return ExternV('builtins.' + name)
        if name in ('True', 'False', 'None', 'NotImplemented'):
            return {'True': True, 'False': False, 'None': None, 'NotImplemented': Opaque('NotImplemented')}[name]
        raise Unsupported('unresolved name %s (line %s)' % (name, getattr(node, 'lineno', '?')))

    def global_value(self, r, name):
        kind = r[0]
        if kind == 'func':
            return FuncV(r[1])
        if kind == 'class':
            return ClassV(r[1])
        if kind == 'extern':
            from .builtins_model import EXTERN_ATTRS
            if r[1] in EXTERN_ATTRS:
                return EXTERN_ATTRS[r[1]]       # a modelled constant of a dependency (e.g. string.whitespace)
            return ExternV(r[1])
        if kind == 'module':
            return ModuleV(r[1])
        if kind == 'const':
            expr, mod = r[1], r[2]
            key = (mod.name, name)
            if key not in self.const_cache:
                self.const_cache[key] = self.eval_in_module(expr, mod)
                # module-level follow-up statements touching this constant
                for st in mod.stmts_after:
                    if any(isinstance(n, ast.Name) and n.id == name for n in ast.walk(st)):
                        self.exec_in_module(st, mod)
            return self.const_cache[key]
        raise Unsupported('global kind %s' % kind)

    def eval_in_module(self, expr, mod):
        self.frames.append(Frame(None, {}, mod))
        try:
            return self.eval(expr)
        finally:
            self.frames.pop()

    def exec_in_module(self, st, mod):
        self.frames.append(Frame(None, {}, mod))
        try:
            self.exec_stmt(st)
        finally:
            self.frames.pop()

    # ------------------------------------------------------------------
    def ev_Tuple(self, e):
        out = []
        for x in e.elts:
            if isinstance(x, ast.Starred):
                out.extend(self.iter_values(self.eval(x.value)))
            else:
                out.append(self.eval(x))
        return tuple(out)

    def ev_List(self, e):
        items = []
        for x in e.elts:
            if isinstance(x, ast.Starred):
                items.extend(self.iter_values(self.eval(x.value)))
            else:
                items.append(self.eval(x))
        return self.heap.alloc(ListObj(items))

    def ev_Set(self, e):
        return self.heap.alloc(SetObj({self.hashable(self.eval(x)): True for x in e.elts}))

    def ev_Dict(self, e):
        d = {}
        for k, v in zip(e.keys, e.values):
            d[self.hashable(self.eval(k))] = self.eval(v)
        return self.heap.alloc(DictObj(d))

    def hashable(self, v):
        if isinstance(v, (int, str, bytes, bool, type(None), EnumV, ClassV, ExternV)):
            if isinstance(v, EnumV) and not v.concrete:
                raise Unsupported('symbolic enum as dict/set key')
            return v
        if isinstance(v, tuple):
            return tuple(self.hashable(x) for x in v)
        raise Unsupported('unhashable / symbolic key %r' % (v,))

    def is_pure_total(self, n):
        """Expressions that cannot raise and have no side effects whatever the
        values of their free names: safe to evaluate without forking."""
        if isinstance(n, (ast.Name, ast.Constant)):
            return True
        if isinstance(n, ast.UnaryOp) and isinstance(n.op, ast.Not):
            return self.is_pure_total(n.operand)
        if isinstance(n, ast.BoolOp):
            return all(self.is_pure_total(v) for v in n.values)
        if isinstance(n, ast.Compare):
            return all(isinstance(op, (ast.Is, ast.IsNot)) for op in n.ops) and \
                self.is_pure_total(n.left) and all(self.is_pure_total(c) for c in n.comparators)
        return False

    def is_pure_bool(self, n):
        if isinstance(n, ast.Constant):
            return isinstance(n.value, bool)
        if isinstance(n, ast.UnaryOp) and isinstance(n.op, ast.Not):
            return self.is_pure_total(n.operand)
        if isinstance(n, ast.BoolOp):
            return all(self.is_pure_bool(v) for v in n.values)
        if isinstance(n, ast.Compare):
            return self.is_pure_total(n)
        return False

    def ev_IfExp(self, e):
        c = self.truth(self.eval(e.test))
        if isinstance(c, bool):
            return self.eval(e.body if c else e.orelse)
        if not self.spec_mode and self.is_pure_total(e.body) and self.is_pure_total(e.orelse):
            a, b = self.eval(e.body), self.eval(e.orelse)
            try:
                return self.merge_ite(c, a, b)
            except Unsupported:
                pass
        if self.spec_mode:
            a, b = self.eval(e.body), self.eval(e.orelse)
            return self.merge_ite(c, a, b)
        return self.eval(e.body if self.branch(c, 'ifexp@%d' % e.lineno) else e.orelse)

    def merge_ite(self, c, a, b):
        if a is None and b is None:
            return None
        if isinstance(a, EnumV) and isinstance(b, EnumV) and a.cls is b.cls:
            return EnumV(a.cls, z3.If(c, zany(a.val), zany(b.val)))
        if isinstance(a, Opt) or isinstance(b, Opt) or a is None or b is None:
            oa, ob = self.as_opt(a), self.as_opt(b)
            inner = self.merge_ite(c, oa.val if oa.val is not None else ob.val,
                                   ob.val if ob.val is not None else oa.val)
            return Opt(z3.If(c, zbool(oa.isnone), zbool(ob.isnone)), inner)
        if str_kind(a) and str_kind(a) == str_kind(b):
            return self.s_ite(c, a, b)
        if is_bool_like(a) and is_bool_like(b):
            return z3.If(c, zbool(a), zbool(b))
        if is_int_like(a) and is_int_like(b):
            return z3.If(c, zint(a), zint(b))
        if isinstance(a, (z3.ExprRef)) and isinstance(b, z3.ExprRef):
            return z3.If(c, a, b)
        if a is b or (isinstance(a, Ref) and a == b):
            return a
        raise Unsupported('cannot merge %r / %r' % (a, b))

    def as_opt(self, v):
        if isinstance(v, Opt):
            return v
        if v is None:
            return Opt(True, None)
        return Opt(False, v)

    # ------------------------------------------------------------------
    def truth(self, v):
        """-> Python bool or z3 Bool."""
        if v is None:
            return False
        if isinstance(v, bool) or isinstance(v, z3.BoolRef):
            return v
        if isinstance(v, int):
            return v != 0
        if isinstance(v, z3.ArithRef):
            return v != 0
        if isinstance(v, (bytes, str, tuple)):
            return len(v) > 0
        if isinstance(v, SymStr):
            return self.s_len(v) > 0
        if isinstance(v, Opt):
            return zand(znot(v.isnone), self.truth(v.val) if v.val is not None else False)
        if isinstance(v, EnumV):
            if v.cls.enum_kind == 'IntEnum':
                return (v.val != 0)
            return True
        if isinstance(v, Ref):
            o = self.heap.get(v)
            if isinstance(o, ListObj):
                return self.truth(self.list_len(o))
            if isinstance(o, DictObj):
                return len(o.items) > 0
            if isinstance(o, SetObj):
                return zor(*[m for m in o.elems.values()])
            if isinstance(o, MapObj):
                if o.size is not None:
                    return o.size > 0
                raise Unsupported('truth of symbolic map')
            return self.obj_truth(v, o)
        if isinstance(v, (View, FuncV, BoundV, ClassV, ExternV)):
            return True
        if isinstance(v, Opaque):
            raise Unsupported('truth of opaque value')
        raise Unsupported('truth of %r' % (v,))

    def ev_BoolOp(self, e):
        is_and = isinstance(e.op, ast.And)
        if self.spec_mode or self.is_pure_bool(e):
            vals = []
            for x in e.values:
                t = simp_bool(self.truth(self.eval(x)))
                if isinstance(t, bool) and t == (not is_and):
                    vals.append(t)
                    break           # short-circuit on a decided operand
                vals.append(t)
            return zand(*vals) if is_and else zor(*vals)
        v = None
        for i, x in enumerate(e.values):
            v = self.eval(x)
            if i == len(e.values) - 1:
                return v
            t = self.truth(v)
            tb = self.branch(t, 'boolop@%d' % e.lineno)
            if is_and and not tb:
                return v if not isinstance(t, z3.BoolRef) else False
            if (not is_and) and tb:
                if isinstance(v, Opt):
                    return v.val          # truthy => not None
                return v if not isinstance(t, z3.BoolRef) else (v if not is_bool_like(v) else True)
        return v

    def ev_UnaryOp(self, e):
        v = self.eval(e.operand)
        if isinstance(e.op, ast.Not):
            return znot(self.truth(v))
        if isinstance(e.op, ast.USub):
            self.need_int(v, e)
            return -self.int_of(v)
        if isinstance(e.op, ast.UAdd):
            return self.int_of(v)
        raise Unsupported('unary op')

    # ------------------------------------------------------------------
    def int_of(self, v):
        """int value of an int-like (bool / IntEnum included)."""
        if isinstance(v, bool):
            return int(v)
        if isinstance(v, z3.BoolRef):
            return z3.If(v, 1, 0)
        if isinstance(v, EnumV) and v.cls.enum_kind == 'IntEnum':
            return v.val
        if is_int_like(v):
            return v
        if isinstance(v, ZKey):
            return v.e
        raise Unsupported('not an int: %r' % (v,))

    def need_int(self, v, node):
        """TypeError path for None in arithmetic."""
        if v is None:
            self.raise_builtin('TypeError', node=node)
        if isinstance(v, Opt):
            if self.branch(v.isnone, 'none-arith@%s' % getattr(node, 'lineno', '?')):
                self.raise_builtin('TypeError', node=node)

    def unopt(self, v, node=None):
        """Strip Opt after deciding it is not None (forks)."""
        if isinstance(v, Opt):
            if self.spec_mode:
                return v.val
            if self.branch(v.isnone, 'isnone@%s' % getattr(node, 'lineno', '?')):
                return None
            return v.val
        return v

    def ev_BinOp(self, e):
        a = self.eval(e.left)
        b = self.eval(e.right)
        return self.binop(e.op, a, b, e)

    def binop(self, op, a, b, node=None):
        if isinstance(op, ast.Mod) and (str_kind(a) or isinstance(a, Opaque)):
            return Opaque('fmt')        # message formatting: content never a property
        a, b = self.unopt(a, node), self.unopt(b, node)
        # sequences
        if isinstance(op, ast.Add):
            ka, kb = str_kind(a), str_kind(b)
            if ka and kb:
                if ka != kb:
                    self.raise_builtin('TypeError', node=node)
                if not isinstance(a, SymStr) and not isinstance(b, SymStr):
                    return a + b
                return self.s_concat(a, b)
            if isinstance(a, tuple) and isinstance(b, tuple):
                return a + b
            if isinstance(a, Ref) and isinstance(b, Ref):
                return self.list_concat(a, b)
            if isinstance(a, Opaque) or isinstance(b, Opaque):
                return Opaque('concat')
        if isinstance(op, ast.Mult):
            if str_kind(a) and is_int_like(b) or str_kind(b) and is_int_like(a):
                s, n = (a, b) if str_kind(a) else (b, a)
                if isinstance(n, int) and not isinstance(s, SymStr):
                    return s * n
                return self.repeat_str(s, n)
        if isinstance(op, ast.BitAnd) and isinstance(a, Ref) and isinstance(b, Ref):
            return self.set_intersection(a, b)
        if a is None or b is None:
            self.raise_builtin('TypeError', node=node)
        x, y = self.int_of(a), self.int_of(b)
        conc = isinstance(x, int) and isinstance(y, int)
        if isinstance(op, ast.Add):
            return x + y
        if isinstance(op, ast.Sub):
            return x - y
        if isinstance(op, ast.Mult):
            return x * y
        if isinstance(op, ast.Pow):
            if conc:
                return x ** y
            raise Unsupported('symbolic **')
        if isinstance(op, ast.FloorDiv):
            if conc:
                return x // y
            if isinstance(y, int) and y > 0:
                return zint(x) / y      # SMT div == Python // for positive divisor
            raise Unsupported('// by non-literal or non-positive divisor')
        if isinstance(op, ast.Mod):
            if conc:
                return x % y
            if isinstance(y, int) and y > 0:
                return zint(x) % y      # SMT mod == Python % for positive divisor
            raise Unsupported('% by non-literal or non-positive divisor')
        if conc:
            if isinstance(op, ast.LShift):
                return x << y
            if isinstance(op, ast.RShift):
                return x >> y
            if isinstance(op, ast.BitAnd):
                return x & y
            if isinstance(op, ast.BitOr):
                return x | y
        raise Unsupported('binop %s on symbolic' % type(op).__name__)

    # ------------------------------------------------------------------
    def equals(self, a, b):
        """Python == ; -> bool or z3 Bool."""
        if isinstance(a, Opt) or isinstance(b, Opt):
            if a is None or b is None:
                o = a if isinstance(a, Opt) else b
                return zbool(o.isnone) if not isinstance(o.isnone, bool) else o.isnone
            oa, ob = self.as_opt(a), self.as_opt(b)
            both_none = zand(oa.isnone, ob.isnone)
            if oa.val is None or ob.val is None:
                return both_none
            return zor(both_none, zand(znot(oa.isnone), znot(ob.isnone), self.equals(oa.val, ob.val)))
        if a is None or b is None:
            return a is None and b is None
        if isinstance(a, EnumV) and isinstance(b, EnumV):
            if a.cls is not b.cls:
                if a.cls.enum_kind == 'IntEnum' and b.cls.enum_kind == 'IntEnum':
                    return self._eqv(a.val, b.val)
                return False
            return self._eqv(a.val, b.val)
        if isinstance(a, EnumV) or isinstance(b, EnumV):
            en, other = (a, b) if isinstance(a, EnumV) else (b, a)
            if en.cls.enum_kind == 'IntEnum' and (is_int_like(other) or is_bool_like(other)):
                return self._eqv(en.val, self.int_of(other))
            return False
        ka, kb = str_kind(a), str_kind(b)
        if ka or kb:
            if ka != kb:
                return False
            if not isinstance(a, SymStr) and not isinstance(b, SymStr):
                return a == b
            return self.s_eq(a, b)
        if (is_int_like(a) or is_bool_like(a)) and (is_int_like(b) or is_bool_like(b)):
            if is_bool_like(a) and is_bool_like(b):
                return self._eqv(a, b)
            return self._eqv(self.int_of(a), self.int_of(b))
        if isinstance(a, tuple) and isinstance(b, tuple):
            if len(a) != len(b):
                return False
            return zand(*[self.equals(x, y) for x, y in zip(a, b)])
        if isinstance(a, Ref) and isinstance(b, Ref):
            if a == b:
                return True
            return self.obj_equals(a, b)
        if isinstance(a, (ClassV, ExternV, FuncV)) or isinstance(b, (ClassV, ExternV, FuncV)):
            return a == b if type(a) is type(b) else False
        if isinstance(a, tuple) != isinstance(b, tuple):
            # e.g. header tuple vs Ref(HeaderTuple obj) handled in obj_equals
            if isinstance(a, Ref) or isinstance(b, Ref):
                return self.obj_equals(a, b)
            return False
        if type(a) is not type(b) and not (isinstance(a, z3.ExprRef) and isinstance(b, z3.ExprRef)):
            return False
        raise Unsupported('== on %r, %r' % (a, b))

    def _eqv(self, x, y):
        if isinstance(x, (int, bool)) and isinstance(y, (int, bool)):
            return x == y
        return zany(x) == zany(y)

    def identical(self, a, b):
        """Python `is`."""
        if a is None or b is None:
            if isinstance(a, Opt):
                return a.isnone
            if isinstance(b, Opt):
                return b.isnone
            return a is None and b is None
        if isinstance(a, Opt) or isinstance(b, Opt):
            # `x is True` style on tri-state values
            return self.equals(a, b)
        if is_bool_like(a) and is_bool_like(b):
            return self._eqv(a, b)
        if is_bool_like(a) != is_bool_like(b) and (is_bool_like(a) or is_bool_like(b)):
            return False      # bool is int only by ==, not by identity
        if isinstance(a, EnumV) and isinstance(b, EnumV):
            return self.equals(a, b)
        if isinstance(a, Ref) and isinstance(b, Ref):
            return a == b
        if isinstance(a, tuple) and isinstance(b, tuple):
            return a is b        # the very same tuple value handed on (interpreter tuples are immutable Python tuples)
        if isinstance(a, View) and isinstance(b, View):
            if a.moid == b.moid and a.prefix == b.prefix:
                return self._eqv(a.idx, b.idx)
            return False
        if isinstance(a, (ClassV, ExternV)) and isinstance(b, (ClassV, ExternV)):
            return a == b
        if is_int_like(a) and is_int_like(b):
            return self._eqv(a, b)    # small-int identity is not relied on by h2
        return False

    def ev_Compare(self, e):
        left = self.eval(e.left)
        results = []
        for op, rhs in zip(e.ops, e.comparators):
            right = self.eval(rhs)
            results.append(self.compare(op, left, right, e))
            left = right
            if len(e.ops) > 1 and not self.spec_mode:
                # chained comparison short-circuits; operands here are pure
                pass
        return zand(*results)

    def compare(self, op, a, b, node=None):
        if isinstance(op, ast.Eq):
            return self.equals(a, b)
        if isinstance(op, ast.NotEq):
            return znot(self.equals(a, b))
        if isinstance(op, ast.Is):
            return self.identical(a, b)
        if isinstance(op, ast.IsNot):
            return znot(self.identical(a, b))
        if isinstance(op, ast.In):
            return self.contains(b, a, node)
        if isinstance(op, ast.NotIn):
            return znot(self.contains(b, a, node))
        a, b = self.unopt(a, node), self.unopt(b, node)
        if a is None or b is None:
            self.raise_builtin('TypeError', node=node)
        if str_kind(a) and str_kind(b):
            raise Unsupported('ordering on strings')
        x, y = self.int_of(a), self.int_of(b)
        if isinstance(op, ast.Lt):
            return x < y
        if isinstance(op, ast.LtE):
            return x <= y
        if isinstance(op, ast.Gt):
            return x > y
        if isinstance(op, ast.GtE):
            return x >= y
        raise Unsupported('compare op')

    def contains(self, container, item, node=None):
        if isinstance(container, tuple):
            return zor(*[self.equals(item, x) for x in container])
        if isinstance(container, Ref):
            o = self.heap.get(container)
            if isinstance(o, ListObj):
                if o.tail is not None:
                    raise Unsupported('in on abstract-tail list')
                return zor(*[self.equals(item, x) for x in o.items])
            if isinstance(o, SetObj):
                return self.set_contains(o, item)
            if isinstance(o, DictObj):
                return zor(*[self.equals(item, k.e if isinstance(k, ZKey) else k) for k in o.items])
            if isinstance(o, MapObj):
                item = self.unopt(item, node)
                if item is None:
                    return False
                ki = zint(self.int_of(item))
                if not any(z3.eq(ki, q) for q in self.bound_vars):
                    self.touch_index(ki)
                return z3.Select(o.dom, ki)
            return self.obj_contains(container, o, item, node)
        if str_kind(container) and str_kind(item):
            if not isinstance(container, SymStr) and not isinstance(item, SymStr):
                return item in container
            return z3.Contains(to_zstr(container), to_zstr(item))
        raise Unsupported('in on %r' % (container,))

    # ------------------------------------------------------------------
    def ev_Attribute(self, e):
        base = self.eval(e.value)
        return self.getattr(base, e.attr, e)

    def ev_Subscript(self, e):
        base = self.eval(e.value)
        if isinstance(e.slice, ast.Slice):
            lo = self.eval(e.slice.lower) if e.slice.lower is not None else None
            hi = self.eval(e.slice.upper) if e.slice.upper is not None else None
            if e.slice.step is not None:
                raise Unsupported('slice step')
            return self.getslice(base, lo, hi, e)
        idx = self.eval(e.slice)
        return self.getitem(base, idx, e)

    def ev_ListComp(self, e):
        return self.heap.alloc(ListObj(list(self.comprehension(e))))

    def ev_GeneratorExp(self, e):
        # evaluated eagerly; only used with all()/any()/join over pure elements
        return self.heap.alloc(ListObj(list(self.comprehension(e))))

    def ev_SetComp(self, e):
        return self.heap.alloc(SetObj({self.hashable(v): True for v in self.comprehension(e)}))

    def comprehension(self, e):
        if len(e.generators) != 1:
            raise Unsupported('nested comprehension')
        g = e.generators[0]
        it = self.eval(g.iter)
        fr = self.frames[-1]
        saved = dict(fr.locals)
        out = []
        try:
            for v in self.iter_values(it, e):
                self.assign_target(g.target, v)
                ok = True
                for cond in g.ifs:
                    if not self.branch(self.truth(self.eval(cond)), 'compif@%d' % e.lineno):
                        ok = False
                        break
                if ok:
                    out.append(self.eval(e.elt))
        finally:
            for k in list(fr.locals):
                if k not in saved:
                    del fr.locals[k]
            fr.locals.update(saved)
        return out

    def ev_Lambda(self, e):
        raise Unsupported('lambda')

    def ev_Starred(self, e):
        raise Unsupported('starred')

    def ev_Yield(self, e):
        raise Unsupported('yield as expression')

    def ev_Call(self, e):
        return self.eval_call(e)
