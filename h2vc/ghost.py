"""Ghost state maintained by the interpreter itself (not by h2 code):
  g_out      list of frames ever serialised into the output buffer (C02...)
  g_enc      abstract HPACK encoder version: bumped whenever Encoder.encode
             consumed at least one header field or a table-size change (C13)
  g_dec      abstract HPACK decoder version (C20)
"""
import z3
from .values import *  # noqa
from .core import *  # noqa


class GhostMixin:
    def init_ghost(self):
        self.g_out = self.heap.alloc(ListObj([]))
        self.g_enc = 0
        self.g_nencode = 0          # number of Encoder.encode calls (one per emitted header block, C13)
        self.g_nframes = 0          # number of frames ever serialised (survives a loop havoc of g_out)
        self.g_ngoaway = 0          # ... of which GOAWAY frames (C18: exactly one per connection error)
        self.g_dec = 0
        self.g_enc_log = []
        self.ghost_blocks = []

    def ghost_emit(self, frame_ref):
        self.heap.get(self.g_out).items.append(frame_ref)
        self.g_nframes = self.g_nframes + 1
        if str(self.heap.get(frame_ref).cls).endswith('GoAwayFrame'):
            self.g_ngoaway = self.g_ngoaway + 1

    def unopt_strict(self, v, node=None):
        """Value used where None is a TypeError."""
        if isinstance(v, Opt):
            if self.spec_mode:
                return v.val
            if self.branch(v.isnone, 'isnone@%s' % getattr(node, 'lineno', '?')):
                self.raise_builtin('TypeError', node=node)
            return v.val
        if v is None:
            self.raise_builtin('TypeError', node=node)
        return v

    def truth_is_true(self, v):
        t = simp_bool(self.truth(v))
        return t is True

    def settings_body_len(self, settings, node):
        """6 bytes per entry; values must fit 'L' (struct.error otherwise)."""
        if isinstance(settings, Ref):
            o = self.heap.get(settings)
            if isinstance(o, DictObj):
                for k, v in o.items.items():
                    self.check_setting_entry(k, v, node)
                return 6 * len(o.items)
            if isinstance(o, MapObj):
                return self.symbolic_settings_body_len(settings, o, node)
        raise Unsupported('settings payload %r' % (settings,))

    def check_setting_entry(self, k, v, node):
        from .deps_model import _rng
        self.int_of(self.unopt_strict(k, node))
        _rng(self, v, 0, 2 ** 32 - 1, node)

    def symbolic_settings_body_len(self, ref, m, node):
        """A user-supplied / peer-supplied settings dict (symbolic map int->int):
        struct.error iff some value is outside 0..2^32-1."""
        k = self.fresh('sk', 'int')
        bad = z3.And(z3.Select(m.dom, k), z3.Or(z3.Select(m.arrays[''], k) < 0, z3.Select(m.arrays[''], k) > 2 ** 32 - 1))
        if self.branch(bad, 'settings-value-range'):
            self.raise_builtin('struct.error', node=node)
        j = z3.Int('sk!all%d' % self.counter)
        self.assume(z3.ForAll([j], z3.Implies(z3.Select(m.dom, j),
                                                z3.And(z3.Select(m.arrays[''], j) >= 0, z3.Select(m.arrays[''], j) <= 2 ** 32 - 1))))
        if m.size is None:
            m.size = self.fresh('nsettings', 'int')
            self.assume(m.size >= 0)
        return 6 * m.size
