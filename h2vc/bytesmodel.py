"""Abstract payload bytes.

Payload-like byte strings (DATA payloads, opaque data, debug data, encoded
header blocks, serialised frames, the output buffer) are modelled over an
UNINTERPRETED sort `Bytes` with
     blen : Bytes -> Int         bcat : Bytes x Bytes -> Bytes
     bslice : Bytes x Int x Int -> Bytes
and ground axiom instances added at construction time (length of a
concatenation / slice, split-and-rejoin).  Only length, equality,
concatenation and slicing of such values are ever observed by h2, so nothing
is lost, and z3's sequence solver (which cannot build 16 kB witnesses) stays
out of the integer obligations.  Header text keeps the real String theory
(descriptors 'hbytes' / 'hstr')."""
import hashlib
import z3
from .values import *  # noqa
from .core import *  # noqa

B = z3.DeclareSort('Bytes')
blen = z3.Function('blen', B, z3.IntSort())
bcat = z3.Function('bcat', B, B, B)
bslice = z3.Function('bslice', B, z3.IntSort(), z3.IntSort(), B)
abs_of = z3.Function('abs_of', z3.StringSort(), B)


def is_abs(v):
    return isinstance(v, SymStr) and v.s.sort() == B


class BytesMixin:
    def new_abs(self, name, kind='bytes'):
        self.counter += 1
        c = z3.Const('%s!%d' % (name, self.counter), B)
        self.assume(blen(c) >= 0)
        return SymStr(kind, c)

    def to_abs(self, v):
        """Any bytes/str value -> z3 term of sort Bytes."""
        if is_abs(v):
            return v.s
        if isinstance(v, SymStr):
            t = abs_of(v.s)
            self.assume(blen(t) == z3.Length(v.s))
            return t
        if isinstance(v, (bytes, str)):
            raw = v if isinstance(v, bytes) else v.encode('utf-8', 'surrogatepass')
            key = (type(v).__name__, raw)
            if key not in self.bconsts:
                name = 'b"%s"' % raw[:12].decode('latin-1').encode('unicode_escape').decode() if len(raw) <= 12 \
                    else 'b#%s' % hashlib.sha1(raw).hexdigest()[:10]
                c = z3.Const(name, B)
                for (k2, c2) in self.bconsts.items():
                    if len(k2[1]) == len(raw):
                        self.assume(c != c2)         # distinct literals of equal length
                self.bconsts[key] = c
                self.assume(blen(c) == len(raw))
            return self.bconsts[key]
        raise Unsupported('to_abs %r' % (v,))

    def s_len(self, v):
        if isinstance(v, (bytes, str)):
            return len(v)
        if is_abs(v):
            return blen(v.s)
        return z3.Length(v.s)

    def s_mixed(self, *vs):
        return any(is_abs(v) for v in vs)

    def s_concat(self, a, b):
        kind = str_kind(a)
        if isinstance(a, (bytes, str)) and isinstance(b, (bytes, str)):
            return a + b
        if isinstance(b, (bytes, str)) and len(b) == 0:
            return a
        if isinstance(a, (bytes, str)) and len(a) == 0:
            return b
        if self.s_mixed(a, b) or kind == 'bytes':
            ta, tb = self.to_abs(a), self.to_abs(b)
            t = bcat(ta, tb)
            self.assume(blen(t) == blen(ta) + blen(tb))
            return SymStr(kind, t)
        return SymStr(kind, z3.Concat(to_zstr(a), to_zstr(b)))

    def s_eq(self, a, b):
        if isinstance(a, (bytes, str)) and isinstance(b, (bytes, str)):
            return a == b
        if self.s_mixed(a, b):
            ta, tb = self.to_abs(a), self.to_abs(b)
            # an empty value is THE empty constant (valid fact, instantiated here)
            e = self.to_abs(b'' if str_kind(a) == 'bytes' else '')
            self.assume(z3.Implies(blen(ta) == 0, ta == e))
            self.assume(z3.Implies(blen(tb) == 0, tb == e))
            return ta == tb
        return to_zstr(a) == to_zstr(b)

    def s_ite(self, c, a, b):
        kind = str_kind(a)
        if self.s_mixed(a, b):
            return SymStr(kind, z3.If(c, self.to_abs(a), self.to_abs(b)))
        return SymStr(kind, z3.If(c, to_zstr(a), to_zstr(b)))

    def s_slice(self, base, lo, hi, node=None):
        """Python slice semantics base[lo:hi] (lo/hi int, z3 Int or None)."""
        if not is_abs(base):
            return None
        x = base.s
        n = blen(x)
        a = z3.IntVal(0) if lo is None else self.norm_index(self.int_of(lo), n)
        b = n if hi is None else self.norm_index(self.int_of(hi), n)
        a, b = z3.simplify(zint(a)), z3.simplify(zint(b))
        t = bslice(x, a, b)
        self.assume(blen(t) == z3.If(b - a < 0, 0, b - a))
        # whole-value slice, and split-and-rejoin at the cut point
        self.assume(z3.Implies(z3.And(a == 0, b == n), t == x))
        if lo is None or (isinstance(lo, int) and lo == 0):
            rest = bslice(x, b, n)
            self.assume(blen(rest) == z3.If(n - b < 0, 0, n - b))
            self.assume(bcat(t, rest) == x)
        if hi is None:
            first = bslice(x, z3.IntVal(0), a)
            self.assume(blen(first) == a)
            self.assume(bcat(first, t) == x)
        return SymStr(base.kind, t)
