"""Abstract header lists (layer 1, DESIGN 4 C13-C16).

At the H2Stream / H2Connection level a header list is an opaque value of an
uninterpreted sort `HL`; the utilities entry points that h2's stream code calls
on it are replaced by their CONTRACTS (modular calls), stated over
uninterpreted spec functions:

   hl_len(hl) >= 0                         number of fields
   hl_info(hl)                             is_informational_response(hl)
   hl_auth?(hl), hl_auth(hl)               authority_from_headers(hl)
   hl_method?(hl), hl_method(hl)           extract_method_header(hl)
   hl_cl?(hl), hl_cl(hl)                   first content-length field (stream._initialize_content_length)
   hl_out_ok(hl, client, trailer, response, push)     validate_outbound_headers consumes hl completely
   hl_in_ok(hl, client, trailer, response, push)      validate_headers consumes hl completely
   norm_out(hl), norm_in(hl), decoded(hl, enc)        results of the normalisation / decoding stages

Those contracts are the obligations of layer 2 (contracts/c_headers.py), where
the REAL utilities functions are verified on symbolic header lists.  Lazy
evaluation is kept: a validated list raises on *consumption*, after a
symbolic number of fields has already been handed to the consumer (this is
what makes the HPACK desynchronisation of C13 visible)."""
import z3
from .values import *  # noqa
from .core import *  # noqa
from .builtins_model import EXTERN_CALLS, EXTERN_METHODS, extern_method, extern_call, USED_MODELS
from .calls import CallMixin

HL = z3.DeclareSort('HdrList')
INT, BOOL, STR = z3.IntSort(), z3.BoolSort(), z3.StringSort()
hl_len = z3.Function('hl_len', HL, INT)
hl_info = z3.Function('hl_info', HL, BOOL)
hl_auth_none = z3.Function('hl_auth_none', HL, BOOL)
hl_auth = z3.Function('hl_auth', HL, STR)
hl_method_none = z3.Function('hl_method_none', HL, BOOL)
hl_method = z3.Function('hl_method', HL, STR)
hl_cl_none = z3.Function('hl_cl_none', HL, BOOL)
hl_cl = z3.Function('hl_cl', HL, STR)
hl_status_nocontent = z3.Function('hl_status_nocontent', HL, BOOL)   # a :status 204/304 field precedes any content-length field
# flags: client tri-state encoded 0=None 1=True 2=False
hl_out_ok = z3.Function('hl_out_ok', HL, INT, BOOL, BOOL, BOOL, BOOL)
hl_in_ok = z3.Function('hl_in_ok', HL, INT, BOOL, BOOL, BOOL, BOOL)
norm_out = z3.Function('norm_out', HL, HL)
norm_in = z3.Function('norm_in', HL, HL)
decoded = z3.Function('decoded', HL, STR, HL)
decode_ok = z3.Function('decode_ok', HL, STR, BOOL)
hl_names_nonempty = z3.Function('hl_names_nonempty', HL, BOOL)   # no field has an empty name

HDR = 'hdrlist'


def is_hdr(I, v):
    return isinstance(v, Ref) and isinstance(I.heap.get(v), Obj) and I.heap.get(v).cls == HDR


def new_hdr(I, term, stages=()):
    """stages: tuple of (ok: z3 Bool, exception builder) evaluated lazily on consumption"""
    return I.heap.alloc(Obj(HDR, {'t': term, 'stages': tuple(stages)}))


def sym_hdrlist(I, desc, name):
    I.counter += 1
    t = z3.Const('%s!%d' % (name, I.counter), HL)
    I.assume(hl_len(t) >= 0)
    return new_hdr(I, t)


def _tri(I, v):
    """tri-state client flag -> Int 0/1/2"""
    if v is None:
        return z3.IntVal(0)
    if isinstance(v, bool):
        return z3.IntVal(1 if v else 2)
    if isinstance(v, Opt):
        return z3.If(zbool(v.isnone), 0, z3.If(zbool(v.val), 1, 2))
    if isinstance(v, z3.BoolRef):
        return z3.If(v, 1, 2)
    raise Unsupported('tri-state %r' % (v,))


def _flags(I, fl):
    o = I.heap.get(fl)
    f = o.fields
    return (_tri(I, f['is_client']), zbool(I.truth(f['is_trailer'])), zbool(I.truth(f['is_response_header'])),
            zbool(I.truth(f['is_push_promise'])))


def consume(I, ref, node=None, consumer=None):
    """Consume an abstract list completely (list(), encode(), for-loop).
    Returns (term, n_items).  Pending lazy stages may raise: then a symbolic
    number k >= 0 of items had already been handed over (consumer(k) is told)."""
    o = I.heap.get(ref)
    t = o.fields['t']
    for ok, mkexc in o.fields['stages']:
        if not I.branch(ok, 'lazy-header-check'):
            k = I.fresh('consumed_before_failure', 'int')
            I.assume(z3.And(k >= 0, k < z3.If(hl_len(t) > 0, hl_len(t), 1)))
            if consumer is not None:
                consumer(k)
            mkexc(I, node)
    o.fields['stages'] = ()
    return t, hl_len(t)


def _raise_protocol(I, node):
    ci = I.P.classes['h2.exceptions.ProtocolError']
    exc = I.instantiate(ci, [Opaque('msg')], {}, node)
    raise PyRaise(exc, I.origin(node))


def _raise_builtin(name):
    def f(I, node):
        I.raise_builtin(name, node=node)
    return f


# ---- hooks replacing utilities functions when called on abstract lists --------
def hook(qualname):
    def deco(f):
        CallMixin.function_hooks[qualname] = f
        return f
    return deco


def _arg(fi, args, kwargs, i, name):
    return args[i] if len(args) > i else kwargs[name]


@hook('h2.utilities.is_informational_response')
def h_is_info(I, fi, args, kwargs, node):
    h = _arg(fi, args, kwargs, 0, 'headers')
    if not is_hdr(I, h):
        return NotImplemented
    USED_MODELS.add('contract: utilities.is_informational_response == hl_info (verified in layer 2)')
    t, _ = consume(I, h, node)
    return hl_info(t)


@hook('h2.utilities.authority_from_headers')
def h_authority(I, fi, args, kwargs, node):
    h = _arg(fi, args, kwargs, 0, 'headers')
    if not is_hdr(I, h):
        return NotImplemented
    USED_MODELS.add('contract: utilities.authority_from_headers == hl_auth (verified in layer 2)')
    t, _ = consume(I, h, node)
    return Opt(hl_auth_none(t), SymStr('bytes', hl_auth(t)))


@hook('h2.utilities.extract_method_header')
def h_method(I, fi, args, kwargs, node):
    h = _arg(fi, args, kwargs, 0, 'headers')
    if not is_hdr(I, h):
        return NotImplemented
    USED_MODELS.add('contract: utilities.extract_method_header == hl_method (verified in layer 2)')
    t, _ = consume(I, h, node)
    return Opt(hl_method_none(t), SymStr('bytes', hl_method(t)))


def _stage_hook(qualname, okfn, resfn, label):
    @hook(qualname)
    def h(I, fi, args, kwargs, node):
        hd = _arg(fi, args, kwargs, 0, 'headers')
        if not is_hdr(I, hd):
            return NotImplemented
        USED_MODELS.add('contract: %s (lazy; verified in layer 2)' % label)
        fl = _arg(fi, args, kwargs, 1, 'hdr_validation_flags')
        o = I.heap.get(hd)
        t = o.fields['t']
        stages = list(o.fields['stages'])
        if okfn is not None:
            stages.append((okfn(t, *_flags(I, fl)), _raise_protocol))
        return new_hdr(I, resfn(t) if resfn is not None else t, stages)
    return h


_stage_hook('h2.utilities.validate_outbound_headers', hl_out_ok, None, 'validate_outbound_headers raises ProtocolError iff not hl_out_ok')
_stage_hook('h2.utilities.validate_headers', hl_in_ok, None, 'validate_headers raises ProtocolError iff not hl_in_ok')
_stage_hook('h2.utilities.normalize_outbound_headers', None, norm_out, 'normalize_outbound_headers == norm_out')
_stage_hook('h2.utilities.normalize_inbound_headers', None, norm_in, 'normalize_inbound_headers == norm_in')


@hook('h2.stream._decode_headers')
def h_decode(I, fi, args, kwargs, node):
    hd = _arg(fi, args, kwargs, 0, 'headers')
    if not is_hdr(I, hd):
        return NotImplemented
    enc = _arg(fi, args, kwargs, 1, 'encoding')
    enc = I.unopt(enc, node)
    USED_MODELS.add('contract: stream._decode_headers == decoded(hl, enc), ProtocolError iff not decode_ok (layer 2: contracts/c_headers.py)')
    o = I.heap.get(hd)
    t = o.fields['t']
    zenc = to_zstr(enc)
    stages = list(o.fields['stages']) + [(decode_ok(t, zenc), _raise_protocol)]
    return new_hdr(I, decoded(t, zenc), stages)


@hook('h2.stream.H2Stream._initialize_content_length')
def h_init_cl(I, fi, args, kwargs, node):
    hd = _arg(fi, args, kwargs, 1, 'headers')
    if not is_hdr(I, hd):
        return NotImplemented
    USED_MODELS.add('contract: H2Stream._initialize_content_length over hl_cl (verified in layer 2)')
    selfv = args[0]
    rm = I.getattr(selfv, 'request_method', node)
    if I.branch(I.truth(I.equals(rm, b'HEAD')), 'head-request'):
        I.setattr(selfv, '_expected_content_length', 0, node)
        return None
    t = I.heap.get(hd).fields['t']
    if I.branch(hl_status_nocontent(t), 'status-204-304'):
        I.setattr(selfv, '_expected_content_length', 0, node)
        return None
    if I.branch(hl_cl_none(t), 'no-content-length'):
        return None
    v = I.parse_int(SymStr('bytes', hl_cl(t)), 10, node) if False else None
    ok = z3.Function('int_parse_ok', STR, BOOL)(hl_cl(t))
    val = z3.Function('int_parse_val', STR, INT)(hl_cl(t))
    if not I.branch(ok, 'content-length-parses'):
        _raise_protocol(I, node)
    I.setattr(selfv, '_expected_content_length', val, node)
    return None


# ---- consumers ------------------------------------------------------------------
def list_of_hdr(I, ref, node):
    t, n = consume(I, ref, node)
    return new_hdr(I, t)


def hdr_equals(I, a, b):
    return I.heap.get(a).fields['t'] == I.heap.get(b).fields['t']


# ---- spec function with a symbolic meaning: number of open streams ---------------
cnt_open = z3.Function('cnt_open', z3.ArraySort(INT, BOOL), z3.ArraySort(INT, INT), INT, INT)


@hook('spec.specfns.count_open')
def h_count_open(I, fi, args, kwargs, node):
    streams, r = args
    if not (isinstance(streams, Ref) and isinstance(I.heap.get(streams), MapObj)):
        return NotImplemented
    m = I.heap.get(streams)
    st = m.arrays['state_machine.state']
    r = zint(I.int_of(r))
    keys = getattr(m, 'explicit_keys', None)
    if keys is not None:
        total = z3.IntVal(0)
        for k in keys:
            k = zint(k)
            s = z3.Select(st, k)
            total = total + z3.If(z3.And(z3.Select(m.dom, k), z3.Or(s == 3, s == 4, s == 5), k % 2 == r), 1, 0)
        return z3.simplify(total)
    c = cnt_open(m.dom, st, r)
    I.assume(c >= 0)
    return c


# ---- spec-level names of the inbound pipeline (contracts/specfns.py: hdr_in_result / hdr_in_accepts) -------
def _enc_parts(I, enc):
    """header_encoding (None | False | str) -> (is_set: z3 Bool, z3 String)"""
    if enc is None or enc is False:
        return z3.BoolVal(False), z3.StringVal('')
    if isinstance(enc, Opt):
        s, inner = _enc_parts(I, enc.val)
        return z3.And(z3.Not(zbool(enc.isnone)), s), inner
    if isinstance(enc, (str, SymStr)):
        zs = to_zstr(enc)
        return z3.Length(zs) > 0, zs
    raise Unsupported('header_encoding value %r' % (enc,))


def in_pipeline_terms(I, h, flags, normalize, validate, encoding):
    t = I.heap.get(h).fields['t']
    nz, vz = zbool(I.truth(normalize)), zbool(I.truth(validate))
    es, ez = _enc_parts(I, encoding)
    h1 = z3.If(nz, norm_in(t), t)
    ok = z3.And(z3.Implies(vz, hl_in_ok(h1, *_flags(I, flags))), z3.Implies(es, decode_ok(h1, ez)))
    res = z3.If(es, decoded(h1, ez), h1)
    return ok, res


@hook('spec.specfns.hdr_in_result')
def h_spec_in_result(I, fi, args, kwargs, node):
    if not is_hdr(I, args[0]):
        return NotImplemented
    ok, res = in_pipeline_terms(I, *args)
    return new_hdr(I, res)


@hook('spec.specfns.hdr_in_accepts')
def h_spec_in_accepts(I, fi, args, kwargs, node):
    if not is_hdr(I, args[0]):
        return NotImplemented
    ok, res = in_pipeline_terms(I, *args)
    return ok


@hook('spec.specfns.queued_in_range')
def h_queued_in_range(I, fi, args, kwargs, node):
    from .deps_model import _dq_get
    q, lo, hi = args
    cells, qlo, qhi, hn = _dq_get(I, q)
    lo_, hi_ = zint(I.int_of(lo)), zint(I.int_of(hi))
    I.counter += 1
    j = z3.Int('qpos!%d' % I.counter)
    return z3.ForAll([j], z3.Implies(z3.And(j >= zint(qlo) + 1, j < zint(qhi)),
                                       z3.And(z3.Select(cells, j) >= lo_, z3.Select(cells, j) <= hi_)))


@hook('spec.specfns.settings_header_of')
def h_settings_header_of(I, fi, args, kwargs, node):
    from .deps_model import settings_arrays, ser_settings, b64e
    dom, val = settings_arrays(I, args[0], node)
    body = ser_settings(dom, val)
    m = I.heap.get(args[0])
    n = len(m.items) if isinstance(m, DictObj) else m.size
    if n is not None:
        from .bytesmodel import blen
        I.assume(blen(body) == 6 * zint(n))       # 6 bytes per entry (assumed hyperframe contract)
    return SymStr('bytes', b64e(body))


@hook('spec.specfns.hdr_has_method')
def h_spec_has_method(I, fi, args, kwargs, node):
    if not is_hdr(I, args[0]):
        return NotImplemented
    return z3.Not(hl_method_none(I.heap.get(args[0]).fields['t']))


@hook('spec.specfns.hdr_is_informational')
def h_spec_is_info(I, fi, args, kwargs, node):
    if not is_hdr(I, args[0]):
        return NotImplemented
    return hl_info(I.heap.get(args[0]).fields['t'])
