"""Symbolic interpreter for the Python subset used by h2 (see DESIGN.md 2.2).

One Interp instance executes ONE path (decision replay); `explore()` in
prove.py drives the DFS over paths.
"""
import ast
import z3
from .values import *  # noqa
from .core import *  # noqa
from . import extract
from .exprs import ExprMixin
from .stmts import StmtMixin
from .calls import CallMixin
from .builtins_model import BuiltinMixin
from .heapmodel import HeapMixin
from .specmode import SpecMixin
from .ghost import GhostMixin
from .bytesmodel import BytesMixin
from .modular import ModularMixin


class Interp(ExprMixin, StmtMixin, CallMixin, BuiltinMixin, HeapMixin, SpecMixin, GhostMixin, BytesMixin, ModularMixin):
    def __init__(self, program, ctl, timeout_ms=2000, spec_env=None):
        self.P = program
        self.ctl = ctl
        self.solver = z3.Solver()
        self.solver.set('timeout', timeout_ms)
        self.pc = []
        self.heap = Heap()
        self.frames = []
        self.counter = 0
        self.spec_mode = 0          # >0: pure evaluation, no forking
        self.old_heap = None        # snapshot used by old(...)
        self.old_locals = None
        self.old_ghost = {}
        self.quant_vars = set()
        self.ghost = {}             # ghost variables (name -> value)
        self.const_cache = {}       # (module, name) -> value
        self.class_attr_cache = {}
        self.callsite_obligations = []   # (label, z3 goal, text, props) -- only used when no sink is installed
        self.obligation_sink = None      # set by the verifier: obligations arising INSIDE a path (callee preconditions,
                                         # loop invariants, recursion measures) are discharged at once, under the path
                                         # condition of that moment -- never under assumptions made afterwards
        self.contracts = {}         # qualname -> Contract (modular calls)
        self.modular = set()        # qualnames to call through their contract
        self.inlined = set()        # qualnames inlined on this path
        self.spec_env = spec_env or {}   # extra names visible to spec expressions
        self.enum_cache = {}
        self.call_depth = 0
        self.trace = []             # human-readable decision labels
        self.events = []            # ghost trace of external effects (encoder calls...)
        self.bconsts = {}
        self.bound_vars = []
        self.in_old = False
        self.modular_used = set()
        self.unproved_skipped = set()
        self.bounds_hit = set()
        self.bounds_used = set()
        self.init_ghost()
        self.deferred = []
        self.touched_idx = []
        self.inst_done = set()

    def emit_obligation(self, label, goal, text, props):
        if self.obligation_sink is not None:
            self.obligation_sink(label, goal, text, props)
        else:
            self.callsite_obligations.append((label, goal, text, props))

    # ------------------------------------------------------------------
    # fresh symbols
    def fresh(self, base, sort='int'):
        self.counter += 1
        name = '%s!%d' % (base, self.counter)
        return self.mk_const(name, sort)

    def mk_const(self, name, sort):
        if sort == 'int':
            return z3.Int(name)
        if sort == 'bool':
            return z3.Bool(name)
        if sort == 'str':
            return z3.String(name)
        raise Unsupported('sort ' + sort)

    # ------------------------------------------------------------------
    # path condition / decisions
    def assume(self, c):
        c = simp_bool(c)
        if c is True:
            return
        if c is False:
            raise Abort()
        if z3.is_quantifier(c) and c.is_exists() and not getattr(self, 'spec_mode', False):
            # an assumed existential names its witness: a fresh constant, treated as a touched index so that the
            # deferred (index-local) invariants are instantiated there
            ks = [self.fresh('ex_' + c.var_name(i), 'int') if c.var_sort(i) == z3.IntSort() else None for i in range(c.num_vars())]
            if all(k is not None for k in ks):
                body = z3.substitute_vars(c.body(), *reversed(ks))
                for k in ks:
                    self.touch_index(k)
                for cc in self.conjuncts(body):
                    self.assume(cc)
                return
        self.pc.append(c)
        self.solver.add(c)

    # quantified assumptions (representation invariants over symbolic maps) are
    # kept out of the path condition: they are instantiated at every index a
    # path touches and at the Skolem constants of the goals (prove.discharge);
    # the full quantified formula is only used as a fallback at discharge time.
    def assume_spec(self, f):
        f = simp_bool(f)
        if isinstance(f, bool):
            return self.assume(f)
        for c in self.conjuncts(f):
            if z3.is_quantifier(c) and c.is_forall() and c.num_vars() == 1 and not c.var_name(0).startswith('qpos'):
                self.deferred.append(c)
                for idx in list(self.touched_idx):
                    self.instantiate_one(c, idx)
            else:
                self.assume(c)

    def conjuncts(self, f):
        if z3.is_and(f):
            out = []
            for c in f.children():
                out.extend(self.conjuncts(c))
            return out
        return [f]

    def instantiate_one(self, q, idx):
        key = (q.get_id(), zint(idx).get_id() if not isinstance(idx, int) else ('c', idx))
        if key in self.inst_done:
            return
        self.inst_done.add(key)
        self.assume(z3.substitute_vars(q.body(), zint(idx)))

    def touch_index(self, idx):
        idx = zint(idx)
        if any(z3.eq(idx, t) for t in self.touched_idx):
            return
        self.touched_idx.append(idx)
        for q in self.deferred:
            self.instantiate_one(q, idx)

    def check(self, extra=None):
        if extra is None:
            return self.solver.check()
        self.solver.push()
        self.solver.add(extra)
        r = self.solver.check()
        self.solver.pop()
        return r

    def feasible(self, c):
        c = simp_bool(c)
        if c is True:
            return True
        if c is False:
            return False
        return self.check(c) != z3.unsat

    def choose(self, conds, label='', names=None, exclusive=True):
        """Multi-way decision.  conds: list of (z3 Bool | bool).  Returns the
        chosen index; the chosen condition is added to the path condition."""
        conds = [simp_bool(c) for c in conds]
        trues = [i for i, c in enumerate(conds) if c is True]
        if trues and exclusive:
            return trues[0]
        if self.spec_mode:
            raise Unsupported('decision inside a specification expression (%s)' % label)
        cand = [i for i, c in enumerate(conds) if c is not False]
        if not cand:
            raise Abort()
        ctl = self.ctl
        if ctl.at_forced():
            i = ctl.forced[len(ctl.taken)]
            ctl.taken.append(i)
            ctl.labels.append('%s=%s' % (label, names[i] if names else i))
            self.assume(conds[i])
            return i
        feas = []
        for n, i in enumerate(cand):
            if not exclusive and conds[i] is True:
                feas.append(i)          # nondeterministic alternative that is always enabled
                continue
            if n == len(cand) - 1 and not feas:
                # last candidate and nothing else feasible: it must be
                # (the alternatives are exhaustive by construction)
                feas.append(i)
                break
            if self.check(conds[i]) != z3.unsat:
                feas.append(i)
        if not feas:
            raise Abort()
        for j in feas[1:]:
            ctl.new_prefixes.append(list(ctl.taken) + [j])
        i = feas[0]
        ctl.taken.append(i)
        ctl.labels.append('%s=%s' % (label, names[i] if names else i))
        self.assume(conds[i])
        return i

    def branch(self, cond, label=''):
        """Two-way decision on a truth value; returns a Python bool."""
        c = simp_bool(cond)
        if isinstance(c, bool):
            return c
        i = self.choose([c, z3.Not(c)], label)
        return i == 0

    # ------------------------------------------------------------------
    # raising Python exceptions
    def raise_builtin(self, name, *args, node=None):
        exc = self.heap.alloc(Obj('builtins.' + name if '.' not in name else name,
                                   {'args': tuple(args)}))
        raise PyRaise(exc, self.origin(node))

    def origin(self, node=None):
        fr = self.frames[-1] if self.frames else None
        qn = fr.fi.qualname if fr and fr.fi else '?'
        ln = getattr(node, 'lineno', None)
        txt = None
        if node is not None:
            try:
                txt = ast.unparse(node)
            except Exception:
                txt = None
        return (qn, ln, txt)

    def exc_class_name(self, excref):
        o = self.heap.get(excref)
        return o.cls.qualname if isinstance(o.cls, extract.ClassInfo) else o.cls

    def exc_matches(self, excref, handler):
        """handler: ClassV | ExternV | tuple of those."""
        if isinstance(handler, tuple):
            return any(self.exc_matches(excref, h) for h in handler)
        o = self.heap.get(excref)
        if isinstance(o.cls, extract.ClassInfo):
            if isinstance(handler, ClassV):
                return self.P.is_subclass(o.cls, handler.ci)
            if isinstance(handler, ExternV):
                # h2 exception vs builtin handler: walk extern bases
                for c in self.P.mro(o.cls):
                    if isinstance(c, tuple) and extern_exc_is_subclass(c[1], handler.dotted):
                        return True
                return False
        else:
            if isinstance(handler, ExternV):
                return extern_exc_is_subclass(o.cls, handler.dotted)
            return False
        raise Unsupported('except handler %r' % (handler,))

    # ------------------------------------------------------------------
    def module_of(self):
        return self.frames[-1].module
