"""Heap access: attributes, items, lists, sets, symbolic maps (struct-of-arrays)."""
import ast
import z3
from .values import *  # noqa
from .core import *  # noqa
from . import extract
from .stmts import GenObj

Z_INT = z3.IntSort()
Z_BOOL = z3.BoolSort()
Z_STR = z3.StringSort()


def sort_of_desc(desc):
    """z3 sorts for a scalar layout descriptor -> (value sort, has_isnone)."""
    opt = desc.startswith('opt')
    base = desc[3:] if opt else desc
    if base == 'int' or base.startswith('enum:'):
        return Z_INT, opt
    if base == 'bool':
        return Z_BOOL, opt
    if base == 'bytes':
        from .bytesmodel import B
        return B, opt
    if base in ('hbytes', 'hstr', 'str'):
        return Z_STR, opt
    if base == 'seqint':
        return z3.SeqSort(Z_INT), opt
    if base == 'arrint':
        return z3.ArraySort(Z_INT, Z_INT), opt
    raise Unsupported('layout sort %s' % desc)


class HeapMixin:
    layouts = {}     # class qualname -> {field: desc}; set by the spec layer

    # ------------------------------------------------------------------
    def layout_of(self, cls):
        qn = cls.qualname if isinstance(cls, extract.ClassInfo) else cls
        if qn not in self.layouts:
            raise Unsupported('no layout declared for %s' % qn)
        return self.layouts[qn]

    def class_named(self, name):
        if name in self.P.classes:
            return self.P.classes[name]
        try:
            return self.P.class_by_name(name)
        except KeyError:
            return name       # modelled extern class

    def flatten_layout(self, cls, prefix=''):
        """-> list of (path, desc) for scalar fields, recursively."""
        out = []
        for f, d in self.layout_of(cls).items():
            if d.startswith('obj:'):
                out.extend(self.flatten_layout(self.class_named(d[4:]), prefix + f + '.'))
            elif d == 'shared':
                continue
            else:
                out.append((prefix + f, d))
        return out

    def new_sym_map(self, name, elem_cls, scalar_desc=None, shared=None):
        self.counter += 1
        tag = '%s!%d' % (name, self.counter)
        dom = z3.Array(tag + '.dom', Z_INT, Z_BOOL)
        arrays = {}
        layout = {}
        fields = self.flatten_layout(elem_cls) if elem_cls is not None else [('', scalar_desc)]
        for path, desc in fields:
            vs, opt = sort_of_desc(desc)
            arrays[path] = z3.Array('%s.%s' % (tag, path), Z_INT, vs)
            if opt:
                arrays[path + '?'] = z3.Array('%s.%s?' % (tag, path), Z_INT, Z_BOOL)
            layout[path] = desc
        m = MapObj(name, elem_cls, dom, arrays, layout)
        m.shared = shared or {}
        return self.heap.alloc(m)

    def new_empty_map(self, name, elem_cls, scalar_desc=None, shared=None):
        ref = self.new_sym_map(name, elem_cls, scalar_desc, shared)
        m = self.heap.get(ref)
        m.dom = z3.K(Z_INT, z3.BoolVal(False))
        m.size = 0
        return ref

    # ---- scalar <-> z3 according to a descriptor ------------------------
    def wrap_scalar(self, desc, val, isnone=None):
        """z3 array element(s) -> interpreter value."""
        opt = desc.startswith('opt')
        base = desc[3:] if opt else desc
        if base.startswith('enum:'):
            ci = self.class_named(base[5:])
            v = EnumV(ci, val)
            if not isinstance(val, int):
                vals = sorted(set(self.enum_info(ci).values()))
                rng = z3.Or(*[val == x for x in vals])
                # typing fact: an enum-typed field holds a member (under its not-None flag)
                self.assume(z3.Implies(z3.Not(isnone), rng) if (opt and isnone is not None) else rng)
        elif base in ('bytes', 'str', 'hbytes', 'hstr'):
            v = SymStr({'hbytes': 'bytes', 'hstr': 'str'}.get(base, base), val)
        else:
            v = val
        if opt:
            return Opt(isnone, v)
        return v

    def unwrap_scalar(self, desc, v):
        """interpreter value -> (z3 value or None if None, isnone flag)."""
        opt = desc.startswith('opt')
        base = desc[3:] if opt else desc
        isnone = False
        if isinstance(v, Opt):
            isnone, v = v.isnone, v.val
        elif v is None:
            isnone, v = True, None
        if not opt and isnone is not False:
            if isinstance(isnone, bool) or self.feasible(isnone):
                raise Unsupported('None stored into non-optional field (%s)' % desc)
            isnone = False        # provably not None on this path
        if v is None:
            zv = None
        elif base.startswith('enum:'):
            if not isinstance(v, EnumV):
                raise Unsupported('non-enum stored into enum field: %r' % (v,))
            zv = zint(v.val)
        elif base == 'int':
            zv = zint(self.int_of(v))
        elif base == 'bool':
            if not is_bool_like(v):
                raise Unsupported('non-bool stored into bool field: %r' % (v,))
            zv = zbool(v)
        elif base == 'bytes':
            if str_kind(v) != 'bytes':
                raise Unsupported('wrong string kind stored: %r' % (v,))
            zv = self.to_abs(v)
        elif base in ('str', 'hbytes', 'hstr'):
            if str_kind(v) != {'hbytes': 'bytes', 'hstr': 'str'}.get(base, base):
                raise Unsupported('wrong string kind stored: %r' % (v,))
            zv = to_zstr(v)
        elif base in ('seqint', 'arrint'):
            zv = v
        else:
            raise Unsupported('unwrap %s' % desc)
        return zv, isnone

    # ---- views -----------------------------------------------------------
    def view_get(self, view, attr, node=None):
        m = self.heap.objs[view.moid]
        lay = self.layout_of(view.cls)
        if attr in lay:
            d = lay[attr]
            if d.startswith('obj:'):
                return View(view.moid, view.idx, view.prefix + attr + '.', self.class_named(d[4:]))
            if d == 'shared':
                return m.shared[view.prefix + attr]
            path = view.prefix + attr
            val = z3.Select(m.arrays[path], view.idx)
            isnone = z3.Select(m.arrays[path + '?'], view.idx) if (path + '?') in m.arrays else None
            return self.wrap_scalar(d, val, isnone)
        return self.class_level_getattr(view, view.cls, attr, node)

    def view_set(self, view, attr, v, node=None):
        m = self.heap.objs[view.moid]
        lay = self.layout_of(view.cls)
        if attr not in lay:
            setter = self.P.lookup_setter(view.cls, attr) if isinstance(view.cls, extract.ClassInfo) else None
            if setter is not None:
                return self.call_function(setter, [view, v], {}, node)
            raise Unsupported('assignment to undeclared field %s.%s' % (getattr(view.cls, 'name', view.cls), attr))
        d = lay[attr]
        if d.startswith('obj:') or d == 'shared':
            raise Unsupported('re-binding object field %s of a map element' % attr)
        path = view.prefix + attr
        zv, isnone = self.unwrap_scalar(d, v)
        if zv is not None:
            m.arrays[path] = z3.Store(m.arrays[path], view.idx, zv)
        if (path + '?') in m.arrays:
            m.arrays[path + '?'] = z3.Store(m.arrays[path + '?'], view.idx, zbool(isnone))
        m.touched = getattr(m, 'touched', [])
        m.touched.append((path, view.idx))

    def store_obj_into_map(self, mref, idx, v, node=None):
        m = self.heap.get(mref)
        idx = zint(self.int_of(idx))
        if m.elem_cls is None:
            d = m.layout['']
            zv, isnone = self.unwrap_scalar(d, v)
            if zv is not None:
                m.arrays[''] = z3.Store(m.arrays[''], idx, zv)
            if '?' in m.arrays:
                m.arrays['?'] = z3.Store(m.arrays['?'], idx, zbool(isnone))
        elif isinstance(v, View):
            if v.moid == mref.oid and v.prefix == '' and z3.eq(z3.simplify(zint(v.idx)), z3.simplify(idx)):
                pass      # d[k] = d[k]
            else:
                src = self.heap.objs[v.moid]
                for path in m.layout:
                    m.arrays[path] = z3.Store(m.arrays[path], idx, z3.Select(src.arrays[v.prefix + path], v.idx))
                    if (path + '?') in m.arrays:
                        m.arrays[path + '?'] = z3.Store(m.arrays[path + '?'], idx,
                                                        z3.Select(src.arrays[v.prefix + path + '?'], v.idx))
        elif isinstance(v, Ref):
            o = self.heap.get(v)
            if o.forward is not None:
                return self.store_obj_into_map(mref, idx, o.forward, node)
            if not (isinstance(o, Obj) and (o.cls is m.elem_cls or o.cls == m.elem_cls)):
                raise Unsupported('storing %r into map of %s' % (o.cls, m.elem_cls))
            self.flatten_obj_into(m, mref, idx, v, '', m.elem_cls)
        else:
            raise Unsupported('map store of %r' % (v,))
        was_in = z3.Select(m.dom, idx)
        if m.size is not None:
            m.size = z3.simplify(zint(m.size) + z3.If(was_in, 0, 1)) if not isinstance(simp_bool(was_in), bool) \
                else (m.size if simp_bool(was_in) else z3.simplify(zint(m.size) + 1))
        m.dom = z3.Store(m.dom, idx, z3.BoolVal(True))
        if hasattr(m, 'order_log'):
            m.order_log.append(('set', idx))

    def flatten_obj_into(self, m, mref, idx, ref, prefix, cls):
        o = self.heap.get(ref)
        lay = self.layout_of(cls)
        for f, d in lay.items():
            if d == 'shared':
                key = prefix + f
                if key not in m.shared:
                    m.shared[key] = o.fields.get(f)
                continue
            if f not in o.fields:
                raise Unsupported('field %s missing on %s when stored into map' % (f, getattr(cls, 'name', cls)))
            val = o.fields[f]
            if d.startswith('obj:'):
                self.flatten_obj_into(m, mref, idx, val, prefix + f + '.', self.class_named(d[4:]))
                continue
            path = prefix + f
            zv, isnone = self.unwrap_scalar(d, val)
            if zv is not None:
                m.arrays[path] = z3.Store(m.arrays[path], idx, zv)
            if (path + '?') in m.arrays:
                m.arrays[path + '?'] = z3.Store(m.arrays[path + '?'], idx, zbool(isnone))
        extra = set(o.fields) - set(lay)
        if extra:
            raise Unsupported('undeclared fields %s on %s' % (sorted(extra), getattr(cls, 'name', cls)))
        o.forward = View(mref.oid, idx, prefix, cls)

    def materialize_view(self, view):
        """Snapshot of a map element as a free-standing Obj (for dict.pop)."""
        m = self.heap.objs[view.moid]
        lay = self.layout_of(view.cls)
        fields = {}
        for f, d in lay.items():
            if d.startswith('obj:'):
                fields[f] = self.materialize_view(View(view.moid, view.idx, view.prefix + f + '.', self.class_named(d[4:])))
            elif d == 'shared':
                fields[f] = m.shared.get(view.prefix + f)
            else:
                fields[f] = self.view_get(view, f)
        return self.heap.alloc(Obj(view.cls, fields))

    # ------------------------------------------------------------------
    def getattr(self, base, attr, node=None):
        if isinstance(base, Opt):
            if self.spec_mode:
                pass        # specification text guards the access itself
            elif self.branch(base.isnone, 'none-attr@%s' % getattr(node, 'lineno', '?')):
                self.raise_builtin('AttributeError', node=node)
            base = base.val
        if base is None:
            self.raise_builtin('AttributeError', node=node)
        if isinstance(base, View):
            return self.view_get(base, attr, node)
        if isinstance(base, Ref):
            o = self.heap.get(base)
            if isinstance(o, Obj):
                if o.forward is not None:
                    return self.view_get(o.forward, attr, node)
                if attr in o.fields:
                    return o.fields[attr]
                if isinstance(o.cls, extract.ClassInfo):
                    return self.class_level_getattr(base, o.cls, attr, node)
                return self.extern_obj_getattr(base, o, attr, node)
            return BuiltinMethod(base, attr)
        if isinstance(base, ClassV):
            ci = base.ci
            if ci.enum_kind:
                vals = self.enum_info(ci)
                if attr in vals:
                    return EnumV(ci, vals[attr])
            m = self.P.lookup_method(ci, attr)
            if m is not None:
                if m.kind == 'classmethod':
                    return BoundV(base, m)
                return FuncV(m)
            ca = self.P.lookup_class_attr(ci, attr)
            if ca is not None:
                return self.class_attr_value(ca[0], attr, ca[1])
            if attr == '__name__':
                return ci.name
            raise Unsupported('class attribute %s.%s' % (ci.name, attr))
        if isinstance(base, ExternV):
            return self.extern_getattr(base, attr, node)
        if isinstance(base, ModuleV):
            full = base.name + '.' + attr
            if full in self.P.modules:
                return ModuleV(full)
            if base.name in self.P.modules:
                r = self.P.resolve_name(self.P.modules[base.name], attr)
                if r is not None:
                    return self.global_value(r, attr)
            return ExternV(full)
        if isinstance(base, EnumV):
            if attr == 'value':
                return base.val
            if attr == 'name':
                return Opaque('enum-name')
            raise Unsupported('enum attr ' + attr)
        if str_kind(base) or isinstance(base, (tuple, int)) or is_z3(base):
            return BuiltinMethod(base, attr)
        if isinstance(base, (FuncV, BoundV)) and attr == '__name__':
            return Opaque('name')
        raise Unsupported('getattr %r.%s (line %s)' % (base, attr, getattr(node, 'lineno', '?')))

    def class_level_getattr(self, recv, ci, attr, node):
        if not isinstance(ci, extract.ClassInfo):
            return self.extern_obj_getattr(recv, None, attr, node, cls=ci)
        p = self.P.lookup_property(ci, attr)
        if p is not None:
            return self.call_function(p, [recv], {}, node)
        m = self.P.lookup_method(ci, attr)
        if m is not None:
            if m.kind == 'staticmethod':
                return FuncV(m)
            return BoundV(recv, m)
        ca = self.P.lookup_class_attr(ci, attr)
        if ca is not None:
            return self.class_attr_value(ca[0], attr, ca[1])
        if attr == '__class__':
            return ClassV(ci)
        ext = self.extern_base_getattr(recv, ci, attr, node)
        if ext is not NotImplemented:
            return ext
        if attr in self.init_assigned_fields(ci) and ci.qualname in self.layouts and attr not in self.layouts[ci.qualname]:
            # the real __init__ creates this attribute but the verified layout does not describe it (a field added
            # after the contracts were written): undecided, never a spurious AttributeError path
            raise Unsupported('attribute %s.%s is assigned in __init__ but is not part of the verified layout' % (ci.qualname, attr))
        self.raise_builtin('AttributeError', node=node)

    def init_assigned_fields(self, ci):
        key = ('init-fields', ci.qualname)
        if key not in self.class_attr_cache:
            out = set()
            init = self.P.lookup_method(ci, '__init__')
            if init is not None:
                for st in ast.walk(init.node):
                    if isinstance(st, ast.Attribute) and isinstance(st.ctx, ast.Store) and isinstance(st.value, ast.Name) and st.value.id == 'self':
                        out.add(st.attr)
            self.class_attr_cache[key] = out
        return self.class_attr_cache[key]

    def class_attr_value(self, ci, attr, expr):
        key = (ci.qualname, attr)
        if key not in self.class_attr_cache:
            self.class_attr_cache[key] = self.eval_in_module(expr, ci.module)
        return self.class_attr_cache[key]

    def setattr(self, base, attr, v, node=None):
        if isinstance(base, Opt):
            if self.branch(base.isnone, 'none-setattr@%s' % getattr(node, 'lineno', '?')):
                self.raise_builtin('AttributeError', node=node)
            base = base.val
        if base is None:
            self.raise_builtin('AttributeError', node=node)
        if isinstance(base, View):
            return self.view_set(base, attr, v, node)
        if isinstance(base, Ref):
            o = self.heap.get(base)
            if isinstance(o, Obj):
                if o.forward is not None:
                    return self.view_set(o.forward, attr, v, node)
                if isinstance(o.cls, extract.ClassInfo):
                    setter = self.P.lookup_setter(o.cls, attr)
                    if setter is not None:
                        return self.call_function(setter, [base, v], {}, node)
                    if self.P.lookup_property(o.cls, attr) is not None:
                        self.raise_builtin('AttributeError', node=node)
                    desc = self.descriptor_setattr(base, o, attr, v, node)
                    if desc is not NotImplemented:
                        return
                else:
                    r = self.extern_obj_setattr(base, o, attr, v, node)
                    if r is not NotImplemented:
                        return
                o.fields[attr] = v
                return
        raise Unsupported('setattr on %r' % (base,))

    # ------------------------------------------------------------------
    def list_len(self, o):
        if o.tail is None:
            return len(o.items)
        return len(o.items) + o.tail.n

    def getitem(self, base, idx, node=None):
        base = self.unopt(base, node)
        if base is None:
            self.raise_builtin('TypeError', node=node)
        if isinstance(base, tuple):
            return self.seq_index(base, idx, node)
        if isinstance(base, (bytes, str)) and isinstance(idx, int):
            if not (-len(base) <= idx < len(base)):
                self.raise_builtin('IndexError', node=node)
            return base[idx] if isinstance(base, bytes) else base[idx]
        if str_kind(base):
            return self.str_index(base, idx, node)
        if isinstance(base, Ref):
            o = self.heap.get(base)
            if isinstance(o, ListObj):
                if o.tail is not None:
                    return self.abstract_list_index(base, o, idx, node)
                return self.seq_index(o.items, idx, node)
            if isinstance(o, DictObj):
                return self.dict_lookup(o, idx, node)
            if isinstance(o, MapObj):
                return self.map_lookup(base, o, idx, node)
            if isinstance(o, Obj):
                return self.obj_getitem(base, o, idx, node)
        if isinstance(base, View):
            return self.view_getitem(base, idx, node)
        raise Unsupported('subscript on %r' % (base,))

    def seq_index(self, items, idx, node):
        idx = self.unopt(idx, node)
        i = self.int_of(idx)
        n = len(items)
        if isinstance(i, int):
            if not (-n <= i < n):
                self.raise_builtin('IndexError', node=node)
            return items[i]
        # symbolic index over a concrete-length sequence of scalars: merge (no fork)
        if n and (all(is_bool_like(x) for x in items) or all(is_int_like(x) for x in items)):
            inrange = z3.And(i >= 0, i < n)
            if not self.branch(inrange, 'index-in-range@%s' % getattr(node, 'lineno', '?')):
                if self.branch(z3.And(i < 0, i >= -n), 'index-negative@%s' % getattr(node, 'lineno', '?')):
                    i = i + n
                else:
                    self.raise_builtin('IndexError', node=node)
            acc = zany(items[n - 1])
            for k in range(n - 2, -1, -1):
                acc = z3.If(i == k, zany(items[k]), acc)
            return acc
        # otherwise: fork
        opts = [i == k for k in range(n)] + [i == k - n for k in range(1, n + 1)]
        opts.append(z3.Or(i >= n, i < -n))
        c = self.choose(opts, 'index@%s' % getattr(node, 'lineno', '?'))
        if c < n:
            return items[c]
        if c < 2 * n:
            return items[-(c - n + 1)]
        self.raise_builtin('IndexError', node=node)

    def dict_lookup(self, o, key, node):
        sym = self.key_is_symbolic(key)
        if not sym and not any(isinstance(k, ZKey) for k in o.items):
            k = self.hashable(key)
            if k in o.items:
                return o.items[k]
            kk = self.same_int_key(o, k)
            if kk is not None:
                return o.items[kk]
            self.raise_builtin('KeyError', key, node=node)
        keys = list(o.items.keys())
        conds = [self.equals(key, k.e if isinstance(k, ZKey) else k) for k in keys]
        none_of = znot(zor(*conds))
        i = self.choose(conds + [none_of], 'dictkey@%s' % getattr(node, 'lineno', '?'))
        if i == len(keys):
            self.raise_builtin('KeyError', key, node=node)
        return o.items[keys[i]]

    def same_int_key(self, o, k):
        """An IntEnum member and the int it equals are the same dictionary key in Python (equal and same hash)."""
        def iv(x):
            if isinstance(x, bool):
                return None
            if isinstance(x, int):
                return x
            if isinstance(x, EnumV) and x.concrete and x.cls.enum_kind == 'IntEnum' and isinstance(x.val, int):
                return x.val
            return None
        a = iv(k)
        if a is None:
            return None
        for kk in o.items:
            if not isinstance(kk, ZKey) and iv(kk) == a:
                return kk
        return None

    def key_is_symbolic(self, key):
        if isinstance(key, tuple):
            return any(self.key_is_symbolic(k) for k in key)
        if isinstance(key, EnumV):
            return not key.concrete
        return is_z3(key) or isinstance(key, (Opt, SymStr))

    def map_lookup(self, mref, m, key, node):
        key = self.unopt(key, node)
        if key is None:
            self.raise_builtin('KeyError', key, node=node)
        k = zint(self.int_of(key))
        if not any(z3.eq(k, q) for q in self.bound_vars):
            self.touch_index(k)
        if self.spec_mode:
            pass        # specification text guards the access (k in map) itself
        elif not self.branch(z3.Select(m.dom, k), 'inmap@%s' % getattr(node, 'lineno', '?')):
            self.raise_builtin('KeyError', key, node=node)
        if m.elem_cls is None:
            d = m.layout['']
            return self.wrap_scalar(d, z3.Select(m.arrays[''], k),
                                    z3.Select(m.arrays['?'], k) if '?' in m.arrays else None)
        return View(mref.oid, k, '', m.elem_cls)

    def setitem(self, base, idx, v, node=None):
        if isinstance(base, Ref):
            o = self.heap.get(base)
            if isinstance(o, ListObj):
                i = self.int_of(idx)
                if o.tail is not None and isinstance(i, int) and 0 <= i < len(o.items):
                    o.items[i] = v
                    return
                if o.tail is not None:
                    raise Unsupported('store into abstract list')
                if not isinstance(i, int):
                    # symbolic index into concrete list (STREAM_OPEN[...] = True is concrete)
                    raise Unsupported('symbolic list store')
                if not (-len(o.items) <= i < len(o.items)):
                    self.raise_builtin('IndexError', node=node)
                o.items[i] = v
                return
            if isinstance(o, DictObj):
                if self.key_is_symbolic(idx):
                    kv = self.unopt(idx, node)
                    if isinstance(kv, EnumV):
                        kv = kv.val
                    if not isinstance(kv, z3.ArithRef):
                        raise Unsupported('symbolic non-integer key stored into dict')
                    # overwrite an entry that is certainly the same key, else new entry
                    # (sound when keys of one dict are pairwise distinct or syntactically equal,
                    #  which dict_lookup re-checks by forking on key equality)
                    o.items[ZKey(z3.simplify(kv))] = v
                    return
                o.items[self.hashable(idx)] = v
                return
            if isinstance(o, MapObj):
                hook = getattr(self, 'map_setitem_hook', None)
                if hook and hook(base, o, idx, v, node):
                    return
                return self.store_obj_into_map(base, idx, v, node)
            if isinstance(o, Obj):
                return self.obj_setitem(base, o, idx, v, node)
        raise Unsupported('item assignment on %r' % (base,))

    def setslice(self, base, lo, hi, v, node=None):
        if isinstance(base, Ref):
            o = self.heap.get(base)
            if isinstance(o, Obj) and o.cls == 'builtins.bytearray':
                if isinstance(v, Ref):
                    v = self.bi_bytes([v], {}, node)
                if str_kind(v) != 'bytes':
                    raise Unsupported('bytearray slice assignment of %r' % (v,))
                data = o.fields['data']
                head = self.str_slice(data, None, lo if lo is not None else 0, node)
                tail = self.str_slice(data, hi, None, node) if hi is not None else (b'' if True else None)
                if hi is None:
                    tail = b''
                o.fields['data'] = self.s_concat(self.s_concat(head, v), tail)
                return
        raise Unsupported('slice assignment on %r' % (base,))

    def delitem(self, base, idx, node=None):
        if isinstance(base, Ref):
            o = self.heap.get(base)
            if isinstance(o, DictObj):
                k = self.hashable(idx)
                if k not in o.items:
                    self.raise_builtin('KeyError', node=node)
                del o.items[k]
                return
            if isinstance(o, MapObj):
                self.map_lookup(base, o, idx, node)     # KeyError path
                self.map_remove(o, idx)
                return
        raise Unsupported('del item on %r' % (base,))

    def map_remove(self, m, idx):
        k = zint(self.int_of(idx))
        m.dom = z3.Store(m.dom, k, z3.BoolVal(False))
        if m.size is not None:
            m.size = z3.simplify(zint(m.size) - 1)

    def getslice(self, base, lo, hi, node=None):
        lo, hi = self.unopt(lo, node), self.unopt(hi, node)
        if isinstance(base, Ref):
            o = self.heap.get(base)
            if isinstance(o, ListObj):
                if o.tail is not None:
                    return self.abstract_list_slice(base, o, lo, hi, node)
                if (lo is None or isinstance(lo, int)) and (hi is None or isinstance(hi, int)):
                    return self.heap.alloc(ListObj(o.items[lo:hi]))
                raise Unsupported('symbolic slice of list')
            if isinstance(o, Obj) and o.cls == 'builtins.bytearray':
                return self.bytearray_slice(base, o, lo, hi, node)
        if isinstance(base, tuple):
            if (lo is None or isinstance(lo, int)) and (hi is None or isinstance(hi, int)):
                return base[lo:hi]
        if str_kind(base):
            return self.str_slice(base, lo, hi, node)
        raise Unsupported('slice of %r' % (base,))

    # ---- strings -----------------------------------------------------------
    def str_len(self, v):
        return self.s_len(v)

    def norm_index(self, i, n):
        """Python slice index normalisation -> clamp to [0, n]."""
        i, n = zint(i), zint(n)
        adj = z3.If(i < 0, i + n, i)
        return z3.If(adj < 0, 0, z3.If(adj > n, n, adj))

    def str_slice(self, base, lo, hi, node):
        if not isinstance(base, SymStr) and (lo is None or isinstance(lo, int)) and (hi is None or isinstance(hi, int)):
            return base[lo:hi]
        from .bytesmodel import is_abs
        if is_abs(base):
            return self.s_slice(base, lo, hi, node)
        s = to_zstr(base)
        n = z3.Length(s)
        a = 0 if lo is None else self.norm_index(self.int_of(lo), n)
        b = n if hi is None else self.norm_index(self.int_of(hi), n)
        ln = z3.If(zint(b) - zint(a) < 0, 0, zint(b) - zint(a))
        return SymStr(str_kind(base), z3.SubString(s, zint(a), ln))

    def str_index(self, base, idx, node):
        i = self.int_of(self.unopt(idx, node))
        s = to_zstr(base)
        n = z3.Length(s)
        ok = z3.And(zint(i) < n, zint(i) >= -n)
        if not self.spec_mode and not self.branch(ok, 'stridx@%s' % getattr(node, 'lineno', '?')):
            self.raise_builtin('IndexError', node=node)      # (specifications read positions as a total function)
        pos = z3.If(zint(i) < 0, zint(i) + n, zint(i))
        if str_kind(base) == 'bytes':
            return z3.StrToCode(z3.SubString(s, pos, 1))
        return SymStr('str', z3.SubString(s, pos, 1))

    def repeat_str(self, s, n):
        # b"\0" * n : only the length is ever observable
        r = self.new_abs('rep', str_kind(s))
        self.assume(self.s_len(r) == z3.If(zint(n) < 0, 0, zint(n) * self.str_len(s)))
        return r

    # ---- lists -------------------------------------------------------------
    def list_concat(self, a, b):
        oa, ob = self.heap.get(a), self.heap.get(b)
        if isinstance(oa, ListObj) and isinstance(ob, ListObj):
            if oa.tail is not None and ob.tail is None:
                if ob.items:
                    raise Unsupported('concat after abstract tail')
                return self.heap.alloc(ListObj(list(oa.items), oa.tail))
            if oa.tail is None:
                return self.heap.alloc(ListObj(list(oa.items) + list(ob.items), ob.tail))
        raise Unsupported('list concat')

    def list_extend(self, lref, other):
        o = self.heap.get(lref)
        if o.tail is not None:
            vals = list(self.iter_values(other))
            if vals:
                raise Unsupported('extend of abstract-tail list')
            return
        if isinstance(other, Ref) and isinstance(self.heap.get(other), ListObj) and self.heap.get(other).tail is not None:
            src = self.heap.get(other)
            o.items.extend(src.items)
            o.tail = src.tail
            return
        o.items.extend(list(self.iter_values(other)))

    # ---- sets --------------------------------------------------------------
    def set_contains(self, o, item):
        if self.key_is_symbolic(item):
            return zor(*[zand(m, self.equals(item, k)) for k, m in o.elems.items()])
        try:
            k = self.hashable(item)
        except Unsupported:
            return False
        m = o.elems.get(k, False)
        return m

    def set_intersection(self, a, b):
        oa, ob = self.heap.get(a), self.heap.get(b)
        if not (isinstance(oa, SetObj) and isinstance(ob, SetObj)):
            raise Unsupported('& on non-sets')
        out = {}
        for k, m in oa.elems.items():
            if k in ob.elems:
                out[k] = zand(m, ob.elems[k])
        return self.heap.alloc(SetObj(out))

    def iter_set(self, o, node):
        # iteration order of a set is hash-dependent: only allowed when all
        # memberships are concrete and the consumer is order-insensitive; the
        # C28 static pass reports order-sensitive uses.
        for k, m in o.elems.items():
            if m is True:
                yield k
            elif m is False:
                continue
            else:
                if self.branch(m, 'setiter'):
                    yield k

    # ---- default object protocol hooks (overridden by builtins_model) ---------
    def obj_truth(self, ref, o):
        if isinstance(o, Obj) and isinstance(o.cls, extract.ClassInfo):
            ln = self.P.lookup_method(o.cls, '__len__')
            if ln is not None:
                return self.truth(self.call_function(ln, [ref], {}))
        if isinstance(o, Obj):
            r = self.extern_obj_truth(ref, o)
            if r is not NotImplemented:
                return r
            if o.cls == 'hdrlist':
                # a (materialised) header list is a container: falsy iff it has no field
                from .hdrmodel import hl_len
                return hl_len(o.fields['t']) > 0
            if isinstance(o.cls, str) and (o.cls.startswith('abs-') or o.cls == 'map-iter'):
                raise Unsupported('truth value of the abstract container %s' % o.cls)
        return True

    def obj_equals(self, a, b):
        if isinstance(a, Ref) and isinstance(b, Ref):
            oa, ob = self.heap.get(a), self.heap.get(b)
            if isinstance(oa, ListObj) and isinstance(ob, ListObj) and oa.tail is None and ob.tail is None:
                if len(oa.items) != len(ob.items):
                    return False
                return zand(*[self.equals(x, y) for x, y in zip(oa.items, ob.items)])
            if isinstance(oa, Obj) and isinstance(ob, Obj) and oa.cls == ob.cls == 'hdrlist':
                return oa.fields['t'] == ob.fields['t']
            if isinstance(oa, Obj) and isinstance(ob, Obj) and oa.cls == ob.cls == 'builtins.bytearray':
                return self.equals(oa.fields['data'], ob.fields['data'])
            if isinstance(oa, Obj) and isinstance(ob, Obj) and oa.cls == ob.cls == 'hyperframe.flags.Flags':
                ks = set(oa.fields['set']) | set(ob.fields['set'])
                return zand(*[zbool(oa.fields['set'].get(k, False)) == zbool(ob.fields['set'].get(k, False)) for k in ks])
        r = self.extern_obj_equals(a, b)
        if r is not NotImplemented:
            return r
        return False

    def obj_contains(self, ref, o, item, node):
        if isinstance(o, Obj) and o.cls == 'hyperframe.flags.Flags':
            from .deps_model import flags_contains
            return flags_contains(self, ref, o, item, node)
        if isinstance(o, Obj):
            f = self.find_extern_method(o.cls, '__contains__')
            if f is not None and not (isinstance(o.cls, extract.ClassInfo) and self.P.lookup_method(o.cls, '__contains__')):
                return f(self, ref, o, [item], {}, node)
        if isinstance(o, Obj) and isinstance(o.cls, extract.ClassInfo):
            c = self.P.lookup_method(o.cls, '__contains__')
            if c is not None:
                return self.truth(self.call_function(c, [ref, item], {}, node))
            # MutableMapping.__contains__: try self[key] / except KeyError
            gi = self.P.lookup_method(o.cls, '__getitem__')
            if gi is not None:
                if self.spec_mode:
                    raise Unsupported('in on mapping object inside specification')
                try:
                    self.call_function(gi, [ref, item], {}, node)
                    return True
                except PyRaise as pr:
                    if self.exc_matches(pr.exc, ExternV('builtins.KeyError')):
                        return False
                    raise
        raise Unsupported('in on object %r' % (o.cls,))

    def iter_obj(self, ref, o, node):
        r = self.extern_iter_obj(ref, o, node)
        if r is NotImplemented:
            raise Unsupported('iteration over object %r' % (o.cls,))
        return r

    def obj_getitem(self, ref, o, idx, node):
        if isinstance(o.cls, extract.ClassInfo):
            gi = self.P.lookup_method(o.cls, '__getitem__')
            if gi is not None:
                return self.call_function(gi, [ref, idx], {}, node)
        r = self.extern_obj_getitem(ref, o, idx, node)
        if r is NotImplemented:
            raise Unsupported('subscript on object %r' % (o.cls,))
        return r

    def obj_setitem(self, ref, o, idx, v, node):
        if isinstance(o.cls, extract.ClassInfo):
            si = self.P.lookup_method(o.cls, '__setitem__')
            if si is not None:
                return self.call_function(si, [ref, idx, v], {}, node)
        r = self.extern_obj_setitem(ref, o, idx, v, node)
        if r is NotImplemented:
            raise Unsupported('item assignment on object %r' % (o.cls,))
        return r

    def view_getitem(self, view, idx, node):
        from .deps_model import view_getitem_dispatch
        return view_getitem_dispatch(self, view, idx, node)

    def descriptor_setattr(self, ref, o, attr, v, node):
        """Data descriptors declared as class attributes (config booleans)."""
        ca = self.P.lookup_class_attr(o.cls, attr)
        if ca is None:
            return NotImplemented
        desc = self.class_attr_value(ca[0], attr, ca[1])
        if isinstance(desc, Ref):
            d = self.heap.get(desc)
            if isinstance(d, Obj) and isinstance(d.cls, extract.ClassInfo):
                st = self.P.lookup_method(d.cls, '__set__')
                if st is not None:
                    self.call_function(st, [desc, ref, v], {}, node)
                    return None
        return NotImplemented

    def map_loop(self, s, it):
        return False

    def map_update_loop(self, recv, other, node):
        """MutableMapping.update(other) for a symbolic dict `other`: the reference implementation's sequential
        `for key in other: self[key] = other[key]` over the dict's explicit key list (bounded stand-in: the
        contract's setup fixes how many keys there can be)."""
        m = self.heap.get(other)
        keys = getattr(m, 'explicit_keys', None)
        if keys is None:
            ro = self.heap.get(recv) if isinstance(recv, Ref) else None
            if isinstance(ro, Obj) and isinstance(ro.cls, extract.ClassInfo) and ro.cls.qualname == 'h2.settings.Settings' \
                    and m.elem_cls is None:
                from .deps_model import settings_update_summary
                return settings_update_summary(self, recv, ro, other, m, node)
            raise Unsupported('update() from a symbolic map of unknown size (needs a loop rule or a contract)')
        for k in list(keys):
            self.setitem(recv, k, self.getitem(other, k, node), node)
        return None

    def iter_abstract_list(self, ref, o, node):
        raise Unsupported('iteration over abstract-tail list')

    def abstract_list_index(self, ref, o, idx, node):
        raise Unsupported('index into abstract-tail list')

    def abstract_list_slice(self, ref, o, lo, hi, node):
        raise Unsupported('slice of abstract-tail list')
