"""Core of the symbolic interpreter: path control (decision replay DFS),
solver handling, heap, control-flow signals."""
import z3
from .values import *  # noqa


class PyRaise(Exception):
    """A Python exception raised by the interpreted program. exc: Ref -> Obj"""

    def __init__(self, exc, origin=None):
        Exception.__init__(self)
        self.exc = exc
        self.origin = origin      # (qualname, lineno, text) of the raising site


class ReturnSig(Exception):
    def __init__(self, value):
        self.value = value


class BreakSig(Exception):
    pass


class ContinueSig(Exception):
    pass


class PathEnd(Exception):
    """The path ends here without reaching the function's exit: an arbitrary loop iteration has re-established
    the loop invariant (the continuation is covered by the path that assumed the invariant)."""


class Abort(Exception):
    """Path is infeasible (an assumption contradicted the path condition)."""


class PathCtl:
    """Replay-based DFS over decisions.  A path is a list of chosen option
    indices; `forced` is the prefix to follow."""

    def __init__(self, forced=()):
        self.forced = list(forced)
        self.taken = []
        self.labels = []
        self.new_prefixes = []

    def at_forced(self):
        return len(self.taken) < len(self.forced)


BUILTIN_EXC_BASES = {
    'BaseException': None,
    'Exception': 'BaseException',
    'LookupError': 'Exception', 'KeyError': 'LookupError', 'IndexError': 'LookupError',
    'ValueError': 'Exception', 'TypeError': 'Exception', 'AssertionError': 'Exception',
    'AttributeError': 'Exception', 'StopIteration': 'Exception',
    'UnicodeError': 'ValueError', 'UnicodeDecodeError': 'UnicodeError',
    'UnicodeEncodeError': 'UnicodeError', 'ArithmeticError': 'Exception',
    'ZeroDivisionError': 'ArithmeticError', 'OverflowError': 'ArithmeticError',
    'NotImplementedError': 'Exception', 'RuntimeError': 'Exception',
    # struct
    'struct.error': 'Exception',
    # binascii (base64 decoding)
    'binascii.Error': 'ValueError',
    # hyperframe
    'hyperframe.exceptions.HyperframeError': 'Exception',
    'hyperframe.exceptions.UnknownFrameError': 'hyperframe.exceptions.HyperframeError',
    'hyperframe.exceptions.InvalidPaddingError': 'hyperframe.exceptions.HyperframeError',
    'hyperframe.exceptions.InvalidFrameError': 'hyperframe.exceptions.HyperframeError',
    'hyperframe.exceptions.InvalidDataError': 'hyperframe.exceptions.HyperframeError',
    # hpack
    'hpack.exceptions.HPACKError': 'Exception',
    'hpack.exceptions.HPACKDecodingError': 'hpack.exceptions.HPACKError',
    'hpack.exceptions.InvalidTableIndexError': 'hpack.exceptions.HPACKDecodingError',
    'hpack.exceptions.InvalidTableIndex': 'hpack.exceptions.InvalidTableIndexError',
    'hpack.exceptions.OversizedHeaderListError': 'hpack.exceptions.HPACKDecodingError',
    'hpack.exceptions.InvalidTableSizeError': 'hpack.exceptions.HPACKDecodingError',
}


def canon_exc_name(dotted):
    """Map 'KeyError' / 'builtins.KeyError' / 'hpack.exceptions.X' to the key
    used in BUILTIN_EXC_BASES, or None."""
    if dotted.startswith('builtins.'):
        dotted = dotted[len('builtins.'):]
    if dotted in BUILTIN_EXC_BASES:
        return dotted
    last = dotted.split('.')[-1]
    for k in BUILTIN_EXC_BASES:
        if k.split('.')[-1] == last and k.split('.')[0] == dotted.split('.')[0]:
            return k
    return None


def extern_exc_is_subclass(name, base):
    n = canon_exc_name(name)
    b = canon_exc_name(base)
    if n is None or b is None:
        return False
    while n is not None:
        if n == b:
            return True
        n = BUILTIN_EXC_BASES.get(n)
    return False


class Frame:
    def __init__(self, fi, locals_, module, closure=None):
        self.fi = fi
        self.locals = locals_
        self.module = module
        self.closure = closure
        self.cur_exc = None     # exception being handled (for bare raise)


class Heap:
    def __init__(self):
        self.objs = {}
        self.next = 1

    def alloc(self, o):
        oid = self.next
        self.next += 1
        self.objs[oid] = o
        return Ref(oid)

    def get(self, ref):
        o = self.objs.get(ref.oid)
        if o is None:
            fb = getattr(self, 'fallback', None)
            if fb is not None:
                return fb.get(ref)      # an object created after the snapshot (old() sees its current value)
            raise KeyError(ref.oid)
        return o

    def snapshot(self):
        h = Heap()
        h.next = self.next
        h.objs = {k: o.copy() if hasattr(o, 'copy') else o for k, o in self.objs.items()}
        return h


def zint(v):
    return z3.IntVal(v) if isinstance(v, int) and not isinstance(v, bool) else v


def zbool(v):
    return z3.BoolVal(v) if isinstance(v, bool) else v


def zand(*xs):
    xs = [x for x in xs if not (isinstance(x, bool) and x is True)]
    if any(isinstance(x, bool) and x is False for x in xs):
        return False
    if not xs:
        return True
    if len(xs) == 1:
        return xs[0]
    return z3.And(*xs)


def zor(*xs):
    xs = [x for x in xs if not (isinstance(x, bool) and x is False)]
    if any(isinstance(x, bool) and x is True for x in xs):
        return True
    if not xs:
        return False
    if len(xs) == 1:
        return xs[0]
    return z3.Or(*xs)


def znot(x):
    if isinstance(x, bool):
        return not x
    return z3.Not(x)


def zite(c, a, b):
    if isinstance(c, bool):
        return a if c else b
    return z3.If(c, zany(a), zany(b))


def zany(v):
    if isinstance(v, bool):
        return z3.BoolVal(v)
    if isinstance(v, int):
        return z3.IntVal(v)
    return v


def simp_bool(c):
    """Return True/False when c is decided syntactically, else the z3 expr."""
    if isinstance(c, bool):
        return c
    s = z3.simplify(c)
    if z3.is_true(s):
        return True
    if z3.is_false(s):
        return False
    return s


def to_zstr(v):
    """Python bytes/str or SymStr -> z3 String expr."""
    if isinstance(v, SymStr):
        return v.s
    if isinstance(v, bytes):
        return z3.StringVal(''.join(_esc(b) for b in v))
    if isinstance(v, str):
        return z3.StringVal(''.join(_esc(ord(c)) for c in v))
    raise Unsupported('to_zstr %r' % (v,))


def _esc(code):
    if 32 <= code < 127 and chr(code) not in '\\"':
        return chr(code)
    return '\\u{%x}' % code


def str_kind(v):
    if isinstance(v, SymStr):
        return v.kind
    if isinstance(v, bytes):
        return 'bytes'
    if isinstance(v, str):
        return 'str'
    return None
