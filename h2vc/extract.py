"""h2vc.extract -- read /repo/src/h2/*.py as *text* on every run and index it.

Nothing from h2 is imported.  What is extracted:
  * per module: import bindings, module-level constants (AST nodes, evaluated
    lazily by the interpreter), functions, classes
  * per class: bases, methods (incl. properties and their setters), class-level
    assignments, enum members (for Enum / IntEnum subclasses)
  * per function: the AST, a sha256 of its source text, the number of
    statements, and the statements *dropped* by the extraction (logger calls,
    docstrings) -- reported in the evidence.
"""
import ast
import hashlib
import os

REPO = os.environ.get('H2VC_REPO', '/repo')
SRC_DIR = os.path.join(REPO, 'src', 'h2')

MODULES = ['errors', 'exceptions', 'config', 'events', 'settings', 'windows',
           'utilities', 'frame_buffer', 'stream', 'connection']


class FunctionInfo:
    def __init__(self, module, qualname, node, cls=None, kind='function'):
        self.module = module          # ModuleInfo
        self.qualname = qualname      # e.g. h2.windows.WindowManager.process_bytes
        self.node = node
        self.cls = cls                # ClassInfo or None
        self.kind = kind              # function | method | property | setter | staticmethod | classmethod
        self.name = node.name
        seg = ast.get_source_segment(module.src, node) or ''
        self.sha256 = hashlib.sha256(seg.encode()).hexdigest()
        self.is_generator = any(isinstance(n, (ast.Yield, ast.YieldFrom))
                                for n in _walk_own(node))
        self.n_statements = sum(1 for n in _walk_own(node) if isinstance(n, ast.stmt))
        self.dropped = []   # filled by count_dropped

    def __repr__(self):
        return '<fn %s>' % self.qualname


def _walk_own(fn):
    """Walk a function body without descending into nested defs/classes."""
    stack = list(fn.body)
    while stack:
        n = stack.pop()
        yield n
        if isinstance(n, (ast.FunctionDef, ast.ClassDef, ast.Lambda)):
            continue            # a nested def directly in the body: its statements belong to it, not to `fn`
        for c in ast.iter_child_nodes(n):
            if isinstance(c, (ast.FunctionDef, ast.ClassDef, ast.Lambda)):
                continue
            stack.append(c)


class ClassInfo:
    def __init__(self, module, name, node):
        self.module = module
        self.name = name
        self.qualname = module.name + '.' + name
        self.node = node
        self.base_exprs = node.bases
        self.methods = {}       # name -> FunctionInfo
        self.properties = {}    # name -> FunctionInfo (getter)
        self.setters = {}       # name -> FunctionInfo
        self.class_attrs = {}   # name -> ast expr
        self.enum_members = None  # name -> int (for Enum/IntEnum)
        self.enum_kind = None     # 'Enum' | 'IntEnum'
        self.bases = []           # resolved: ClassInfo or ('extern', dotted)

    def __repr__(self):
        return '<class %s>' % self.qualname


class ModuleInfo:
    def __init__(self, name, path):
        self.name = name            # h2.windows
        self.path = path
        self.src = open(path).read()
        self.tree = ast.parse(self.src)
        self.bindings = {}          # name -> ('func', FunctionInfo) | ('class', ClassInfo)
        #                                    | ('const', ast expr) | ('import', module, name)
        #                                    | ('module', dotted)
        self.functions = {}
        self.classes = {}
        self.stmts_after = []       # module-level non-simple statements (e.g. STREAM_OPEN[...] = True)


def is_logger_call(stmt):
    """`self.config.logger.debug(...)` / `.trace(...)` expression statements."""
    if not (isinstance(stmt, ast.Expr) and isinstance(stmt.value, ast.Call)):
        return False
    f = stmt.value.func
    if not (isinstance(f, ast.Attribute) and f.attr in ('debug', 'trace')):
        return False
    v = f.value
    return isinstance(v, ast.Attribute) and v.attr == 'logger'


def is_docstring(stmt):
    return (isinstance(stmt, ast.Expr) and isinstance(stmt.value, ast.Constant)
            and isinstance(stmt.value.value, str))


def _enum_kind(node):
    for b in node.bases:
        n = b.attr if isinstance(b, ast.Attribute) else getattr(b, 'id', None)
        if n in ('Enum', 'IntEnum'):
            return n
    return None


class Program:
    def __init__(self, src_dir=None):
        self.src_dir = src_dir or SRC_DIR
        self.modules = {}
        self.functions = {}   # qualname -> FunctionInfo
        self.classes = {}     # qualname -> ClassInfo
        for m in MODULES:
            path = os.path.join(self.src_dir, m + '.py')
            if os.path.exists(path):
                self._load(m, path)
        for c in self.classes.values():
            c.bases = [self._resolve_base(c, b) for b in c.base_exprs]

    # ------------------------------------------------------------------
    def _load(self, short, path):
        mod = ModuleInfo('h2.' + short, path)
        self.modules[mod.name] = mod
        for node in mod.tree.body:
            if isinstance(node, ast.ImportFrom):
                base = node.module or ''
                if node.level:          # relative import inside h2
                    base = 'h2' + ('.' + base if base else '')
                for a in node.names:
                    mod.bindings[a.asname or a.name] = ('import', base, a.name)
            elif isinstance(node, ast.Import):
                for a in node.names:
                    mod.bindings[(a.asname or a.name).split('.')[0]] = ('module', (a.asname or a.name).split('.')[0])
            elif isinstance(node, ast.FunctionDef):
                fi = FunctionInfo(mod, mod.name + '.' + node.name, node)
                self._count_dropped(fi)
                mod.functions[node.name] = fi
                mod.bindings[node.name] = ('func', fi)
                self.functions[fi.qualname] = fi
            elif isinstance(node, ast.ClassDef):
                ci = self._load_class(mod, node)
                mod.classes[node.name] = ci
                mod.bindings[node.name] = ('class', ci)
                self.classes[ci.qualname] = ci
            elif isinstance(node, ast.Assign) and len(node.targets) == 1 \
                    and isinstance(node.targets[0], ast.Name):
                mod.bindings[node.targets[0].id] = ('const', node.value)
            elif is_docstring(node):
                pass
            else:
                mod.stmts_after.append(node)

    def _load_class(self, mod, node):
        ci = ClassInfo(mod, node.name, node)
        ek = _enum_kind(node)
        if ek:
            ci.enum_kind = ek
            ci.enum_members = {}
        for sub in node.body:
            if isinstance(sub, ast.FunctionDef):
                kind = 'method'
                for d in sub.decorator_list:
                    if isinstance(d, ast.Name) and d.id == 'property':
                        kind = 'property'
                    elif isinstance(d, ast.Attribute) and d.attr == 'setter':
                        kind = 'setter'
                    elif isinstance(d, ast.Name) and d.id == 'staticmethod':
                        kind = 'staticmethod'
                    elif isinstance(d, ast.Name) and d.id == 'classmethod':
                        kind = 'classmethod'
                qn = ci.qualname + '.' + sub.name + ('.setter' if kind == 'setter' else '')
                fi = FunctionInfo(mod, qn, sub, cls=ci, kind=kind)
                self._count_dropped(fi)
                self.functions[qn] = fi
                if kind == 'property':
                    ci.properties[sub.name] = fi
                elif kind == 'setter':
                    ci.setters[sub.name] = fi
                else:
                    ci.methods[sub.name] = fi
            elif isinstance(sub, ast.Assign) and len(sub.targets) == 1 \
                    and isinstance(sub.targets[0], ast.Name):
                name = sub.targets[0].id
                ci.class_attrs[name] = sub.value
                if ek is not None:
                    ci.enum_members[name] = sub.value   # resolved lazily (may reference SettingsFrame.X)
        return ci

    def _count_dropped(self, fi):
        for n in _walk_own(fi.node):
            if isinstance(n, ast.stmt):
                if is_logger_call(n):
                    fi.dropped.append('logger-call@+%d' % (n.lineno - fi.node.lineno))
                elif is_docstring(n):
                    fi.dropped.append('docstring')

    def _resolve_base(self, ci, b):
        if isinstance(b, ast.Name):
            r = self.resolve_name(ci.module, b.id)
            if r and r[0] == 'class':
                return r[1]
            if r and r[0] == 'extern':
                return ('extern', r[1])
            return ('extern', b.id)
        if isinstance(b, ast.Attribute):
            return ('extern', ast.unparse(b))
        return ('extern', ast.unparse(b))

    # ------------------------------------------------------------------
    def resolve_name(self, mod, name, _depth=0):
        """Resolve a global name in module `mod`.
        -> ('func', fi) | ('class', ci) | ('const', expr, module) |
           ('extern', dotted) | ('module', dotted) | None"""
        b = mod.bindings.get(name)
        if b is None:
            return None
        if b[0] == 'import':
            m = b[1]
            if m in self.modules and _depth < 5:
                r = self.resolve_name(self.modules[m], b[2], _depth + 1)
                if r is not None:
                    return r
            if m == 'h2' and ('h2.' + b[2]) in self.modules:
                return ('module', 'h2.' + b[2])
            return ('extern', m + '.' + b[2])
        if b[0] == 'const':
            return ('const', b[1], mod)
        return b

    def class_by_name(self, simple):
        hits = [c for c in self.classes.values() if c.name == simple]
        if len(hits) == 1:
            return hits[0]
        raise KeyError(simple)

    def mro(self, ci):
        """Linearised ancestors inside h2 (simple left-to-right DFS is exact
        for the single/diamond-free hierarchies in h2; extern bases are kept
        as ('extern', dotted) markers at their position)."""
        out = []

        def go(c):
            if c in out:
                return
            out.append(c)
            if isinstance(c, ClassInfo):
                for b in c.bases:
                    go(b)
        go(ci)
        return out

    def is_subclass(self, ci, other):
        """other: ClassInfo or extern dotted/simple name."""
        for c in self.mro(ci):
            if isinstance(other, ClassInfo):
                if c is other:
                    return True
            else:
                if isinstance(c, tuple) and (c[1] == other or c[1].split('.')[-1] == other.split('.')[-1]):
                    return True
                if isinstance(c, ClassInfo) and c.name == other:
                    return True
        return False

    def lookup_method(self, ci, name):
        for c in self.mro(ci):
            if isinstance(c, ClassInfo) and name in c.methods:
                return c.methods[name]
        return None

    def lookup_property(self, ci, name):
        for c in self.mro(ci):
            if isinstance(c, ClassInfo) and name in c.properties:
                return c.properties[name]
        return None

    def lookup_setter(self, ci, name):
        for c in self.mro(ci):
            if isinstance(c, ClassInfo) and name in c.setters:
                return c.setters[name]
        return None

    def lookup_class_attr(self, ci, name):
        for c in self.mro(ci):
            if isinstance(c, ClassInfo) and name in c.class_attrs:
                return c, c.class_attrs[name]
        return None
