"""Obligation generation and discharge for one function under contract."""
import ast
import hashlib
import json
import os
import subprocess
import tempfile
import time
import traceback
import z3

from .values import *  # noqa
from .core import *  # noqa
from .core import PathEnd
from . import extract, spec
from .interp import Interp

ENGINE_VERSION = 'h2vc-1'


class Obligation:
    def __init__(self, fn, kind, label, path, props, clause_text):
        self.fn, self.kind, self.label, self.path = fn, kind, label, path
        self.props = props
        self.clause = clause_text
        self.result = None        # proved | refuted | unknown
        self.backend = None
        self.ms = 0.0
        self.witness = None
        self.site = None          # where the path leaves the spec (raise origin)
        self.bounded = None       # bound(s) this path relied on (bounded stand-in), else None
        self.note = ''

    @property
    def oid(self):
        return '%s::%s[%s]' % (self.fn, self.kind, self.label)

    def to_json(self, with_path=True):
        d = {'id': self.oid, 'clause': self.clause, 'result': self.result, 'backend': self.backend,
             'ms': round(self.ms, 2), 'props': self.props}
        if with_path:
            d['path'] = ' / '.join(self.path[-12:])
        if self.witness is not None:
            d['witness'] = self.witness
        if self.site:
            d['site'] = self.site
        if self.note:
            d['note'] = self.note
        return d


def merge_reports(a, b):
    a.obligations.extend(b.obligations)
    a.paths += b.paths
    a.aborted += b.aborted
    a.bounded_out += b.bounded_out
    for u in b.undecided:
        if u not in a.undecided:
            a.undecided.append(u)
    a.vacuous = a.vacuous or b.vacuous
    a.inlined |= b.inlined
    a.modular_calls |= b.modular_calls
    a.unproved_skipped |= b.unproved_skipped
    a.bounds |= b.bounds
    a.models_used |= b.models_used
    a.wall_s += b.wall_s
    if b.canary is True or a.canary is None:
        a.canary = b.canary if b.canary is not None else a.canary
    if a.canary is not True and b.canary is True:
        a.canary = True
    a.sha256 = a.sha256 or b.sha256
    a.n_statements = a.n_statements or b.n_statements
    a.dropped = a.dropped or b.dropped
    return a


class FunctionReport:
    def __init__(self, qualname):
        self.qualname = qualname
        self.obligations = []
        self.paths = 0
        self.aborted = 0
        self.undecided = []       # reasons (Unsupported...)
        self.vacuous = False
        self.inlined = set()
        self.modular_calls = set()
        self.unproved_skipped = set()     # callee clauses NOT assumed at call sites (open known findings)
        self.sha256 = None
        self.n_statements = 0
        self.dropped = []
        self.wall_s = 0.0
        self.canary = None        # True if the canary was refuted (good)
        self.models_used = set()
        self.bounded_out = 0
        self.bounds = set()


def load_program():
    return extract.Program()


def load_spec_program(P):
    """Parse spec-function modules into the Program so the interpreter can
    inline them; returns name -> FuncV env."""
    env = {}
    for path in spec.SPEC_MODULES:
        name = 'spec.' + os.path.splitext(os.path.basename(path))[0]
        if name not in P.modules:
            mod = extract.ModuleInfo(name, path)
            P.modules[name] = mod
            for node in mod.tree.body:
                if isinstance(node, ast.FunctionDef):
                    fi = extract.FunctionInfo(mod, name + '.' + node.name, node)
                    mod.functions[node.name] = fi
                    mod.bindings[node.name] = ('func', fi)
                    P.functions[fi.qualname] = fi
                elif isinstance(node, ast.Assign) and len(node.targets) == 1 and isinstance(node.targets[0], ast.Name):
                    mod.bindings[node.targets[0].id] = ('const', node.value)
                elif isinstance(node, ast.Assign) and len(node.targets) == 1 and isinstance(node.targets[0], ast.Tuple) \
                        and isinstance(node.value, ast.Tuple) and len(node.value.elts) == len(node.targets[0].elts):
                    for t, v in zip(node.targets[0].elts, node.value.elts):
                        mod.bindings[t.id] = ('const', v)
                elif isinstance(node, ast.ImportFrom):
                    base = node.module or ''
                    for a in node.names:
                        mod.bindings[a.asname or a.name] = ('import', base, a.name)
        mod = P.modules[name]
        for fname, fi in mod.functions.items():
            env[fname] = FuncV(fi)
        for bname, b in mod.bindings.items():
            if b[0] == 'const':
                env.setdefault(bname, ('const', b[1], mod))
    return env


class Verifier:
    def __init__(self, P=None, tier='quick', seed=0):
        self.P = P or load_program()
        self.tier = tier
        self.seed = seed
        self.spec_env_raw = load_spec_program(self.P)
        self.ob_timeout_ms = 10000 if tier == 'quick' else 60000
        self.max_paths = 20000
        self.current = None

    # ------------------------------------------------------------------
    def new_interp(self, forced):
        I = Interp(self.P, PathCtl(forced))
        I.layouts = spec.LAYOUTS
        I.contracts = spec.REGISTRY
        I.modular = set(spec.MODULAR) - {self.current}
        I.current_contract = spec.REGISTRY.get(self.current)
        env = {}
        for k, v in self.spec_env_raw.items():
            env[k] = v
        for ci in self.P.classes.values():
            if ci.enum_kind and ci.name not in env:
                env[ci.name] = ClassV(ci)
        I.spec_env = _LazyEnv(I, env, self.P)
        return I

    # ------------------------------------------------------------------
    def build_prestate(self, I, fi, C):
        """-> (locals of the spec frame, ordered arg values for the call)."""
        loc = {}
        a = fi.node.args
        params = [p.arg for p in a.args]
        if fi.cls is not None and fi.kind in ('method', 'property', 'setter') and params and params[0] == 'self':
            desc = C.self_desc or ('obj:' + fi.cls.qualname)
            loc['self'] = I.sym_value(desc, 'self')
        for p in params:
            if p in loc:
                continue
            if p not in C.args:
                raise Unsupported('contract for %s lacks a sort for argument %s' % (fi.qualname, p))
            loc[p] = I.sym_value(C.args[p], p)
        for g, d in C.ghost.items():
            loc[g] = I.sym_value(d, g)
        return loc, [loc[p] for p in params]

    # ------------------------------------------------------------------
    def verify(self, qualname, only_props=None):
        rep, left = self.verify_partial(qualname, [[]], None)
        return rep

    def verify_partial(self, qualname, prefixes, budget):
        """Explore the subtrees rooted at `prefixes`, at most `budget` paths;
        returns (partial report, unexplored prefixes)."""
        C = spec.REGISTRY[qualname]
        self.current = qualname
        rep = FunctionReport(qualname)
        t0 = time.time()
        fi = self.P.functions.get(qualname)
        if fi is None:
            rep.undecided.append('contract target %s not found in source' % qualname)
            return rep, []
        rep.sha256, rep.n_statements, rep.dropped = fi.sha256, fi.n_statements, list(fi.dropped)
        work = [list(p) for p in prefixes]
        first = (prefixes == [[]])
        done = 0
        while work:
            if budget is not None and done >= budget:
                break
            forced = work.pop()
            done += 1
            if rep.paths + rep.aborted > self.max_paths:
                rep.undecided.append('path budget exceeded (%d)' % self.max_paths)
                break
            I = self.new_interp(forced)
            try:
                self.run_path(I, fi, C, rep, first)
            except Abort:
                rep.aborted += 1
            except BoundedOut:
                rep.bounded_out += 1
            except Unsupported as u:
                msg = 'unsupported: %s' % u
                if msg not in rep.undecided:
                    rep.undecided.append(msg)
            except RecursionError:
                rep.undecided.append('interpreter recursion limit')
            first = False
            work.extend(I.ctl.new_prefixes)
            rep.inlined |= I.inlined
            rep.bounds |= I.bounds_used | I.bounds_hit
            rep.modular_calls |= I.modular_used
            rep.unproved_skipped |= I.unproved_skipped
        rep.wall_s = time.time() - t0
        from . import builtins_model
        rep.models_used = set(builtins_model.USED_MODELS)
        return rep, work

    def run_path(self, I, fi, C, rep, first):
        mod = fi.module
        I.frames.append(Frame(None, {}, mod))          # spec frame
        sf = I.frames[-1]
        loc, argvals = self.build_prestate(I, fi, C)
        sf.locals.update(loc)
        if C.setup:
            C.setup(I, sf.locals)
            a = fi.node.args
            argvals = [sf.locals[p.arg] for p in a.args]
        for name, expr in C.let.items():
            sf.locals[name] = I.spec_eval(ast.parse(expr, mode='eval').body)
        for cl in C.requires:
            I.assume_spec(I.spec_bool(cl.ast))
        if first:
            r = I.check()
            if r == z3.unsat:
                rep.vacuous = True
                return
        if C.decreases:
            I.entry_measure = I.int_of(I.spec_eval(ast.parse(C.decreases, mode='eval').body))
        # snapshot for old()
        I.old_heap = I.heap.snapshot()
        I.old_locals = dict(sf.locals)
        if C.loops:
            from .strmodel import loop_defaults
            loop_defaults(I, sf)      # after the snapshot: old() must see the values the loop rule binds later
        I.old_ghost = {'g_enc': I.g_enc, 'g_dec': I.g_dec, 'g_nframes': I.g_nframes, 'g_ngoaway': I.g_ngoaway, 'g_nencode': I.g_nencode}
        inputs = dict(sf.locals)
        outcome = None

        def sink(label, goal, text, cprops):
            ob = Obligation(fi.qualname, 'requires@callsite', label, list(I.ctl.labels), cprops or C.props, text)
            if I.bounds_used:
                ob.bounded = sorted(I.bounds_used)
            self.discharge(I, ob, goal, inputs)
            rep.obligations.append(ob)
        I.obligation_sink = sink
        try:
            if fi.kind == 'setter':
                result = I.call_function(fi, argvals, {})
            else:
                result = I.call_function(fi, argvals, {})
            from .stmts import GenObj
            if fi.is_generator or (isinstance(result, Ref) and isinstance(I.heap.get(result), GenObj)):
                # drain: a generator function's behaviour is its full iteration (also when an ordinary function
                # returns a generator object it created, e.g. utilities._check_path_header -> inner())
                result = I.heap.alloc(ListObj(list(I.iter_values(result))))
            outcome = ('return', result)
        except PyRaise as pr:
            outcome = ('raise', pr)
        except PathEnd:
            outcome = ('pathend', None)
        rep.paths += 1
        path = list(I.ctl.labels)
        props = C.props

        def add(kind, label, goal, cprops, text, site=None, note=''):
            ob = Obligation(fi.qualname, kind, label, path, cprops or props, text)
            ob.site = site
            ob.note = note
            if I.bounds_used:
                ob.bounded = sorted(I.bounds_used)
            self.discharge(I, ob, goal, inputs)
            rep.obligations.append(ob)
            return ob

        for ob in I.callsite_obligations:
            add('requires@callsite', ob[0], ob[1], ob[3], ob[2])

        if outcome[0] == 'pathend':
            return
        if outcome[0] == 'return':
            sf.locals['result'] = outcome[1]
            self.apply_ghost_updates(I, C, sf)
            for cl in C.ensures:
                if cl.when_ast is not None:
                    goal = z3.Implies(self._old_bool(I, cl.when_ast), I.spec_bool(cl.ast))
                else:
                    goal = I.spec_bool(cl.ast)
                add('ensures', cl.label, goal, cl.props, cl.expr)
            for rc in C.raises:
                if rc.iff and rc.when_ast is not None:
                    goal = z3.Not(self._old_bool(I, rc.when_ast))
                    add('raises-iff', rc.label, goal, rc.props, 'normal exit implies not(%s)' % rc.when)
            for ex in C.unchanged:
                node = ast.parse(ex, mode='eval').body
                # unchanged applies to every exit
                goal = self._eq_old(I, node)
                add('modifies', ex, goal, None, '%s == old(%s)' % (ex, ex))
            if C.canary and not rep.canary:
                ob = Obligation(fi.qualname, 'canary', 'canary', path, props, C.canary)
                self.discharge(I, ob, I.spec_bool(ast.parse(C.canary, mode='eval').body), inputs)
                if ob.result == 'refuted':
                    rep.canary = True
                elif rep.canary is None:
                    rep.canary = False
        else:
            pr = outcome[1]
            cname = I.exc_class_name(pr.exc)
            site = {'function': pr.origin[0], 'line': pr.origin[1], 'text': pr.origin[2], 'exception': cname} \
                if pr.origin else {'exception': cname}
            matched = None
            alts = []
            sf.locals['exc'] = pr.exc
            for rc in C.raises:
                if self.exc_is(I, pr.exc, rc.exc):
                    if matched is None:
                        matched = rc
                    if rc.exc == matched.exc:
                        alts.append(rc)
            if matched is None and not C.any_raise_ok:
                esc = ['C29'] if 'C29' in props else (['C17'] if 'C17' in props else None)
                add('raises-only', cname.split('.')[-1], z3.BoolVal(False), esc,
                    'no exception outside the declared set may escape (got %s)' % cname, site=site)
            elif matched is not None:
                sf.locals['exc'] = pr.exc
                if all(rc.when_ast is not None for rc in alts):
                    goal = z3.Or(*[self._old_bool(I, rc.when_ast) for rc in alts])
                    allprops = sorted({p for rc in alts for p in (rc.props or props)})
                    add('raises-when', matched.exc, goal, allprops,
                        '%s only when %s' % (matched.exc, ' OR '.join('(%s)' % rc.when for rc in alts)), site=site)
                else:
                    add('raises-only', matched.label, z3.BoolVal(True), matched.props,
                        '%s is a declared exception' % matched.exc, site=site)
                for cl in matched.ensures:
                    add('raises-ensures', matched.label + '.' + cl.label, I.spec_bool(cl.ast), cl.props or matched.props,
                        cl.expr, site=site)
            for cl in C.on_raise:
                if cl.when_ast is not None:
                    goal = z3.Implies(self._old_bool(I, cl.when_ast), I.spec_bool(cl.ast))
                else:
                    goal = I.spec_bool(cl.ast)
                add('on_raise', cl.label, goal, cl.props, cl.expr, site=site)
            for ex in C.unchanged:
                node = ast.parse(ex, mode='eval').body
                add('modifies', ex, self._eq_old(I, node), None, '%s == old(%s)' % (ex, ex), site=site)

    def _old_bool(self, I, node):
        call = ast.Call(func=ast.Name(id='old', ctx=ast.Load()), args=[node], keywords=[])
        return I.spec_bool(call)

    def _eq_old(self, I, node):
        call = ast.Call(func=ast.Name(id='old', ctx=ast.Load()), args=[node], keywords=[])
        cmp_ = ast.Compare(left=node, ops=[ast.Eq()], comparators=[call])
        return I.spec_bool(cmp_)

    def apply_ghost_updates(self, I, C, sf):
        new = {}
        for g, expr in C.ghost_update.items():
            new[g] = I.spec_eval(ast.parse(expr, mode='eval').body)
        sf.locals.update(new)

    def exc_is(self, I, excref, name):
        o = I.heap.get(excref)
        if isinstance(o.cls, extract.ClassInfo):
            for c in self.P.mro(o.cls):
                if isinstance(c, extract.ClassInfo) and (c.name == name or c.qualname == name):
                    return True
                if isinstance(c, tuple) and extern_exc_is_subclass(c[1], name):
                    return True
            return False
        return extern_exc_is_subclass(o.cls, name)

    # ------------------------------------------------------------------
    def _retry_z3(self, s):
        """z3's sequence / quantifier reasoning is unstable on identical input (seconds on one run, a timeout on
        the next): an `unknown` is retried on fresh solver instances with other seeds before it is reported."""
        for seed in (7, 23, 101):
            s2 = z3.Solver()
            s2.set('random_seed', seed)
            s2.set('timeout', self.ob_timeout_ms)
            s2.add(s.assertions())
            r = s2.check()
            if r == z3.unsat:
                return ('unsat', None)
            if r == z3.sat:
                return ('sat', s2.model())      # a complete model of every assertion: a genuine refutation
        return None

    def skolemize(self, I, g):
        sk = []
        return _skolemize(I, g, sk), sk

    def discharge(self, I, ob, goal, inputs):
        t0 = time.time()
        g = simp_bool(goal)
        s = I.solver
        s.set('timeout', self.ob_timeout_ms)
        if g is True:
            ob.result, ob.backend = 'proved', 'simplifier'
            ob.ms = (time.time() - t0) * 1000
            return
        # Skolemise universally quantified goal conjuncts and instantiate the
        # deferred invariants at the Skolem constants (quantifier-free query)
        g_qf, skolems = self.skolemize(I, zbool(g))
        s.push()
        for k0 in skolems:
            for q in I.deferred:
                s.add(z3.substitute_vars(q.body(), k0))
        s.add(z3.Not(g_qf))
        if os.environ.get('H2VC_DUMP') and os.environ['H2VC_DUMP'] in ob.oid:
            with open('/tmp/h2vc_dump_%d.smt2' % len(ob.path), 'w') as fh:
                fh.write(s.to_smt2())
            print('DUMP goal:', g_qf)
        r = s.check()
        first_model = None
        if r == z3.sat and I.deferred and not _has_quantifier(g_qf):
            # every deferred invariant is index-local (its body reads the maps only at the bound index) and is
            # instantiated at every index term the path touched and at the goal's Skolem constants; the goal itself is
            # quantifier-free, so a model of the instantiated query extends to a model of the quantified one
            first_model = s.model()
            ob.note = 'refuted on the index-instantiated invariant'
        elif r != z3.unsat and I.deferred:
            # fallback: the full quantified assumptions
            if r == z3.sat:
                first_model = s.model()
            s.push()
            for q in I.deferred:
                s.add(q)
            s.set('timeout', min(self.ob_timeout_ms, 3000))
            r2 = s.check()
            s.set('timeout', self.ob_timeout_ms)
            s.pop()
            if r2 == z3.unsat:
                r = z3.unsat
                ob.note = 'needed the quantified invariant'
            elif r == z3.sat:
                # a model of the instantiated query that the full quantified assumptions do not exclude (sat), or
                # that they could not be shown to exclude within the budget (unknown: the instantiated model stands,
                # every deferred invariant being index-local and instantiated at every index the path touched)
                ob.note = 'refuted on the index-instantiated invariant; quantified check: %s' % r2
        if r == z3.unsat:
            ob.result, ob.backend = 'proved', 'z3'
        elif r == z3.sat:
            ob.result, ob.backend = 'refuted', 'z3'
            try:
                m = first_model if first_model is not None else s.model()
                cur = I.heap
                I.heap = I.old_heap if I.old_heap is not None else cur
                try:
                    ob.witness = {k: I.model_value(m, v) for k, v in inputs.items()
                                  if not isinstance(v, (FuncV, ClassV))}
                finally:
                    I.heap = cur
            except Exception as e:      # pragma: no cover
                ob.witness = {'error': str(e)}
        elif (retry := self._retry_z3(s)) is not None:
            ob.note = 'decided on a retry with another random seed (quantifier instability of z3)'
            if retry[0] == 'unsat':
                ob.result, ob.backend = 'proved', 'z3'
            else:
                ob.result, ob.backend = 'refuted', 'z3'
                try:
                    cur = I.heap
                    I.heap = I.old_heap if I.old_heap is not None else cur
                    try:
                        ob.witness = {k: I.model_value(retry[1], v) for k, v in inputs.items() if not isinstance(v, (FuncV, ClassV))}
                    finally:
                        I.heap = cur
                except Exception as e:      # pragma: no cover
                    ob.witness = {'error': str(e)}
        else:
            smt = s.to_smt2()
            res = run_cvc5(smt, self.ob_timeout_ms)
            if res == 'unsat':
                ob.result, ob.backend = 'proved', 'cvc5'
            else:
                ob.result, ob.backend = 'unknown', 'z3+cvc5'
                ob.note = 'z3: %s; cvc5: %s' % (s.reason_unknown(), res)
        s.pop()
        s.set('timeout', 2000)
        ob.ms = (time.time() - t0) * 1000


def _has_quantifier(e, _seen=None):
    seen = set() if _seen is None else _seen
    todo = [e]
    while todo:
        x = todo.pop()
        if x.get_id() in seen:
            continue
        seen.add(x.get_id())
        if z3.is_quantifier(x):
            return True
        todo.extend(x.children())
    return False


def _skolemize(I, g, skolems):
    if z3.is_and(g):
        return z3.And(*[_skolemize(I, c, skolems) for c in g.children()])
    if z3.is_quantifier(g) and g.is_forall():
        ks = []
        for i in range(g.num_vars()):
            I.counter += 1
            k0 = z3.Const('sk!%d' % I.counter, g.var_sort(i))
            ks.append(k0)
        skolems.extend([k for k in ks if z3.is_int(k)])
        body = z3.substitute_vars(g.body(), *reversed(ks))
        return _skolemize(I, body, skolems)
    if z3.is_implies(g):
        a, b = g.children()
        return z3.Implies(a, _skolemize(I, b, skolems))
    if z3.is_not(g) and z3.is_quantifier(g.arg(0)) and g.arg(0).is_exists():
        # not (exists k. B)  ==  forall k. not B
        q = g.arg(0)
        ks = []
        for i in range(q.num_vars()):
            I.counter += 1
            ks.append(z3.Const('sk!%d' % I.counter, q.var_sort(i)))
        skolems.extend([k for k in ks if z3.is_int(k)])
        return _skolemize(I, z3.Not(z3.substitute_vars(q.body(), *reversed(ks))), skolems)
    if z3.is_not(g) and z3.is_and(g.arg(0)):
        return _skolemize(I, z3.Or(*[z3.Not(c) for c in g.arg(0).children()]), skolems)
    if z3.is_not(g) and z3.is_not(g.arg(0)):
        return _skolemize(I, g.arg(0).arg(0), skolems)
    if z3.is_or(g):
        # A or (forall k. B)  ==  forall k. (A or B)   (k fresh): positive occurrences under a disjunction
        return z3.Or(*[_skolemize(I, c, skolems) for c in g.children()])
    return g


def run_cvc5(smt2, timeout_ms):
    try:
        with tempfile.NamedTemporaryFile('w', suffix='.smt2', delete=False, dir='/tmp') as f:
            f.write('(set-logic ALL)\n' + smt2)
            path = f.name
        try:
            out = subprocess.run(['/usr/bin/cvc5', '--strings-exp', '--tlimit=%d' % timeout_ms, path],
                                 capture_output=True, text=True, timeout=timeout_ms / 1000 + 5)
            first = (out.stdout.strip().splitlines() or ['?'])[0]
            return first
        finally:
            os.unlink(path)
    except Exception as e:
        return 'error: %s' % e


class _LazyEnv(dict):
    """spec_env whose ('const', expr, mod) entries are evaluated on demand."""

    def __init__(self, interp, raw, P):
        dict.__init__(self, raw)
        self.I = interp
        self.cache = {}

    def __getitem__(self, k):
        v = dict.__getitem__(self, k)
        if isinstance(v, tuple) and len(v) == 3 and v[0] == 'const':
            if k not in self.cache:
                self.cache[k] = self.I.eval_in_module(v[1], v[2])
            return self.cache[k]
        return v
