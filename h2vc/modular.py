"""Modular calls: a callee with a contract is replaced by it at the call site
(assert requires / havoc modifies / assume ensures / fork per raises clause)."""
import ast
import z3
from .values import *  # noqa
from .core import *  # noqa
from . import extract


class ModularMixin:
    def call_modular(self, fi, C, args, kwargs, node, decreases=False):
        loc = self.bind_args(fi, args, kwargs, node)
        frame = Frame(None, dict(loc), fi.module)
        from .spec import unproved_clauses
        unproved = unproved_clauses()
        self.frames.append(frame)
        saved = (self.old_heap, self.old_locals, self.old_ghost)
        self.modular_used.add(fi.qualname)
        try:
            for g, d in C.ghost.items():
                frame.locals[g] = C.ghost_call[g](self, frame.locals) if g in C.ghost_call else self.sym_value(d, g)
            for name, expr in C.let.items():
                frame.locals[name] = self.spec_eval(ast.parse(expr, mode='eval').body)
            if decreases:
                m = zint(self.int_of(self.spec_eval(ast.parse(C.decreases, mode='eval').body)))
                goal = z3.And(m >= 0, m < zint(self.entry_measure))
                self.emit_obligation('decreases@%s:%s' % (fi.name, getattr(node, 'lineno', '?')), goal,
                                     '0 <= (%s) < its value on entry' % C.decreases, C.props)
            for cl in C.requires:
                goal = self.spec_bool(cl.ast)
                self.emit_obligation('%s@%s:%s' % (cl.label, fi.name, getattr(node, 'lineno', '?')), goal, cl.expr, cl.props or C.props)
            self.old_heap = self.heap.snapshot()
            self.old_locals = dict(frame.locals)
            self.old_ghost = {'g_enc': self.g_enc, 'g_dec': self.g_dec, 'g_nframes': self.g_nframes, 'g_ngoaway': self.g_ngoaway, 'g_nencode': self.g_nencode}
            # outcome conditions (`when`) speak about the callee's PRE-state: evaluated before the frame is havocked
            conds, alts = [], []
            normal_cond = True
            for rc in ([] if C.lazy else C.raises):
                w = self.spec_bool(rc.when_ast) if rc.when_ast is not None else True
                conds.append(w)
                alts.append(rc)
                if rc.iff:
                    normal_cond = zand(normal_cond, znot(w))
            for target in (C.modifies or []):
                if callable(target):
                    target(self, frame.locals)      # functional summary (a restatement of proved ensures clauses)
                else:
                    self.havoc(target, frame)
            # the outcomes of a contract are alternatives, not an if/elif chain: every enabled one is explored
            i = self.choose([normal_cond] + conds, 'modular:%s' % fi.name, names=['return'] + [rc.label for rc in alts], exclusive=False)
            if i == 0:
                if callable(C.result):
                    result = C.result(self, frame.locals)
                elif C.result and C.result.startswith('expr:'):
                    result = self.spec_eval(ast.parse(C.result[5:], mode='eval').body)
                else:
                    result = self.sym_value(C.result, 'ret_' + fi.name) if C.result else None
                frame.locals['result'] = result
                for g, expr in C.ghost_update.items():
                    frame.locals[g] = self.spec_eval(ast.parse(expr, mode='eval').body)
                for cl in C.ensures:
                    if C.assume_only is not None and cl.label not in C.assume_only:
                        continue
                    if '%s::ensures[%s]' % (fi.qualname, cl.label) in unproved:
                        self.unproved_skipped.add('%s::ensures[%s]' % (fi.qualname, cl.label))
                        continue            # an open finding says this clause fails on the real code: never assumed
                    f = self.spec_bool(cl.ast)
                    if cl.when_ast is not None:
                        f = z3.Implies(self.spec_bool(ast.Call(func=ast.Name(id='old', ctx=ast.Load()), args=[cl.when_ast], keywords=[])), f)
                    self.assume_spec(f)
                if self.check() == z3.unsat:
                    raise Abort()           # this outcome is not enabled in the call state
                return result
            rc = alts[i - 1]
            exc = self.make_exception(rc.exc, node)
            frame.locals['exc'] = exc
            for cl in rc.ensures + C.on_raise:
                if '%s::on_raise[%s]' % (fi.qualname, cl.label) in unproved:
                    self.unproved_skipped.add('%s::on_raise[%s]' % (fi.qualname, cl.label))
                    continue
                self.assume_spec(self.spec_bool(cl.ast))
            raise PyRaise(exc, self.origin(node))
        finally:
            self.old_heap, self.old_locals, self.old_ghost = saved
            self.frames.pop()

    def make_exception(self, name, node):
        for ci in self.P.classes.values():
            if ci.name == name or ci.qualname == name:
                ref = self.heap.alloc(Obj(ci, {'args': ()}))
                # fields set by __init__ are left symbolic where the contract constrains them
                init = self.P.lookup_method(ci, '__init__')
                if init is not None:
                    for st in ast.walk(init.node):
                        if isinstance(st, ast.Assign) and isinstance(st.targets[0], ast.Attribute) \
                                and isinstance(st.targets[0].value, ast.Name) and st.targets[0].value.id == 'self':
                            self.heap.get(ref).fields.setdefault(st.targets[0].attr, self.fresh('exc_' + st.targets[0].attr, 'int'))
                return ref
        return self.heap.alloc(Obj('builtins.' + name if '.' not in name else name, {'args': ()}))

    def havoc(self, target, frame):
        """target: 'field:<expr>.<attr>:<desc>' | 'mapdom:<expr>' | 'mapall:<expr>' | 'size:<expr>'"""
        if '|' in target:
            kind, expr, desc = target.split('|')
            base, _, attr = expr.rpartition('.')
            recv = self.spec_eval(ast.parse(base, mode='eval').body)
            self.setattr(recv, attr, self.sym_value(desc, 'havoc_' + attr))
            return
        kind, _, rest = target.partition(':')
        if kind == 'ghost':
            # ghost:g_nframes | ghost:g_ngoaway | ghost:g_enc | ghost:g_dec (fresh value) ; ghost:g_out (forgets the list)
            if rest == 'g_out':
                self.g_out = self.heap.alloc(ListObj([]))
            else:
                setattr(self, rest, self.fresh('havoc_' + rest, 'int'))
            return
        if kind == 'field':
            expr, _, desc = rest.rpartition(':')
            base, _, attr = expr.rpartition('.')
            recv = self.spec_eval(ast.parse(base, mode='eval').body)
            self.setattr(recv, attr, self.sym_value(desc, 'havoc_' + attr))
            return
        if kind == 'maparr':
            # maparr:<map expr>:<field path>  -- one per-field array of a symbolic map (e.g. every stream's window)
            expr, _, path = rest.rpartition(':')
            ref = self.spec_eval(ast.parse(expr, mode='eval').body)
            m = self.heap.get(ref)
            self.counter += 1
            arr = m.arrays[path]
            m.arrays[path] = z3.Array('havoc!%d.%s.%s' % (self.counter, m.name, path), arr.domain(), arr.range())
            if path + '?' in m.arrays:
                q = m.arrays[path + '?']
                m.arrays[path + '?'] = z3.Array('havoc!%d.%s.%s?' % (self.counter, m.name, path), q.domain(), q.range())
            return
        ref = self.spec_eval(ast.parse(rest, mode='eval').body)
        m = self.heap.get(ref)
        if isinstance(m, Obj) and '_od' in m.fields:
            m = self.heap.get(m.fields['_od'])
        self.counter += 1
        tag = 'havoc!%d' % self.counter
        if kind in ('mapdom', 'mapall'):
            m.dom = z3.Array('%s.%s.dom' % (tag, m.name), z3.IntSort(), z3.BoolSort())
            if m.size is not None:
                m.size = self.fresh(m.name + '.size', 'int')
                self.assume(m.size >= 0)
            m.explicit_keys = None
        if kind == 'mapall':
            for path, arr in list(m.arrays.items()):
                m.arrays[path] = z3.Array('%s.%s.%s' % (tag, m.name, path), arr.domain(), arr.range())
