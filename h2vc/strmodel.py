"""Layer 2 (DESIGN 4 C14/C15): symbolic header fields and the transducer loop rule for the header pipeline.

* header names / values are z3 Strings tagged bytes|str (SymStr); lower / strip / utf-8 codecs are uninterpreted
  functions (their Python meaning is not re-modelled: code and specification use the same function, so an
  obligation fails when the code applies it to something else or not at all), character-class regexes and
  indexing are interpreted (code points);
* a header list of unknown length is an abstract sequence; a loop over it is verified by the inductive rule:
  from ARBITRARY accumulator values satisfying the loop invariant, either the sequence is exhausted (the code
  after the loop runs) or one arbitrary further element is processed -- what it yields / raises is checked by
  the `iteration` clauses, then the invariant must hold again.  This is the transducer view of DESIGN 2.3: the
  loop body IS the step function; no unrolling, no bound on the number of header fields."""
import ast
import re as _re
import z3
from .values import *  # noqa
from .core import *  # noqa
from .core import PathEnd
from . import extract
from .builtins_model import (EXTERN_CALLS, EXTERN_METHODS, EXTERN_ATTRS, EXTERN_GETATTR, extern_call,
                             extern_method, USED_MODELS, BuiltinMixin)
from .stmts import StmtMixin
from .specmode import SpecMixin

STR = z3.StringSort()
py_lower = z3.Function('py_lower', STR, STR)
py_strip = z3.Function('py_strip', STR, STR)
py_upper = z3.Function('py_upper', STR, STR)
utf8_encode = z3.Function('utf8_encode', STR, STR)
codec_decode = z3.Function('codec_decode', STR, STR, STR)
codec_decodable = z3.Function('codec_decodable', STR, STR, z3.BoolSort())


# ---- str methods --------------------------------------------------------------------------------------
def str_transform(self, recv, name, args, node):
    if args:
        raise Unsupported('str.%s with arguments' % name)
    f = {'lower': py_lower, 'strip': py_strip, 'upper': py_upper}[name]
    s = to_zstr(recv)
    r = f(s)
    if name in ('lower', 'upper'):
        self.assume(z3.Length(r) == z3.Length(s))
    else:
        self.assume(z3.Length(r) <= z3.Length(s))
    USED_MODELS.add('str/bytes .%s() is an uninterpreted function of the string (same function in code and specification)' % name)
    return SymStr(str_kind(recv), r)


def str_codec(self, recv, direction, args, node):
    kind = str_kind(recv)
    enc = args[0] if args else 'utf-8'
    if self.spec_mode and direction == 'decode' and kind == 'bytes':
        return SymStr('str', codec_decode(to_zstr(recv), to_zstr(enc)))      # specifications name the decoded text
    if not isinstance(recv, SymStr) and not isinstance(enc, SymStr):
        try:
            return recv.encode(enc) if direction == 'encode' else recv.decode(enc)
        except AttributeError:
            self.raise_builtin('AttributeError', node=node)
        except UnicodeError:
            self.raise_builtin('UnicodeDecodeError' if direction == 'decode' else 'UnicodeEncodeError', node=node)
    if direction == 'encode':
        if kind != 'str':
            self.raise_builtin('AttributeError', node=node)
        USED_MODELS.add('str.encode(utf-8) is an uninterpreted injective-looking function (only identity of results is used)')
        return SymStr('bytes', utf8_encode(to_zstr(recv)))
    if kind != 'bytes':
        self.raise_builtin('AttributeError', node=node)
    zenc = to_zstr(enc)
    ok = codec_decodable(to_zstr(recv), zenc)
    if not self.branch(ok, 'decodable'):
        self.raise_builtin('UnicodeDecodeError', node=node)
    USED_MODELS.add('bytes.decode(codec): raises UnicodeDecodeError iff not codec_decodable(bytes, codec) (uninterpreted)')
    return SymStr('str', codec_decode(to_zstr(recv), zenc))


BuiltinMixin.str_transform = str_transform
BuiltinMixin.str_codec = str_codec


# ---- re: character-class search ------------------------------------------------------------------------
def _class_ranges(pat):
    """b'[A-Z]' / b'[A-Za-z0-9]' -> [(65, 90), ...]; anything else is unsupported."""
    if isinstance(pat, bytes):
        pat = pat.decode('latin-1')
    m = _re.fullmatch(r'\[((?:.-.|.)+)\]', pat)
    if not m:
        raise Unsupported('regular expression %r (only one character class is modelled)' % pat)
    body, out, i = m.group(1), [], 0
    while i < len(body):
        if i + 2 < len(body) and body[i + 1] == '-':
            out.append((ord(body[i]), ord(body[i + 2])))
            i += 3
        else:
            out.append((ord(body[i]), ord(body[i])))
            i += 1
    return out


def contains_char_in(zs, ranges):
    any_ = z3.Full(z3.ReSort(STR))
    cls = None
    for lo, hi in ranges:
        r = z3.Range(chr(lo), chr(hi))
        cls = r if cls is None else z3.Union(cls, r)
    return z3.InRe(zs, z3.Concat(any_, cls, any_))


@extern_call('re.compile')
def re_compile(I, args, kwargs, node):
    pat = args[0]
    if isinstance(pat, SymStr):
        raise Unsupported('re.compile of a symbolic pattern')
    return I.heap.alloc(Obj('re.Pattern', {'ranges': _class_ranges(pat), 'kind': str_kind(pat)}))


@extern_method('re.Pattern', 'search')
def re_search(I, ref, o, args, kwargs, node):
    x = args[0]
    if str_kind(x) != o.fields['kind']:
        I.raise_builtin('TypeError', node=node)
    USED_MODELS.add('re: Pattern.search for a single character class = the string contains a code point in the class')
    if not isinstance(x, SymStr):
        return any(any(lo <= c <= hi for lo, hi in o.fields['ranges']) for c in (x if isinstance(x, bytes) else x.encode('latin-1')))
    return contains_char_in(to_zstr(x), o.fields['ranges'])


EXTERN_ATTRS['string.whitespace'] = ' \t\n\r\x0b\x0c'


# ---- hpack.HeaderTuple / NeverIndexedHeaderTuple --------------------------------------------------------
HT, NIHT = 'hpack.HeaderTuple', 'hpack.NeverIndexedHeaderTuple'
BuiltinMixin.EXTERN_SUBCLASS[NIHT] = (HT,)
BuiltinMixin.EXTERN_SUBCLASS[HT] = ('builtins.tuple',)
for _alias, _real in (('hpack.struct.HeaderTuple', HT), ('hpack.struct.NeverIndexedHeaderTuple', NIHT)):
    BuiltinMixin.EXTERN_SUBCLASS[_alias] = (_real,)


def _mk_ht(cls):
    def ctor(I, args, kwargs, node):
        if len(args) != 2 or kwargs:
            I.raise_builtin('TypeError', node=node)
        return I.heap.alloc(Obj(cls, {'t': (args[0], args[1])}))
    return ctor


for _c in (HT, NIHT):
    EXTERN_CALLS[_c] = _mk_ht(_c)

    @extern_method(_c, '__getitem__')
    def ht_getitem(I, ref, o, args, kwargs, node):
        return I.seq_index(o.fields['t'], args[0], node)

    @extern_method(_c, '__iter__')
    def ht_iter(I, ref, o, args, kwargs, node):
        return iter(o.fields['t'])

    @extern_method(_c, '__len__')
    def ht_len(I, ref, o, args, kwargs, node):
        return 2

    @extern_method(_c, '__eq__')
    def ht_eq(I, ref, o, args, kwargs, node):
        other = args[0]
        if isinstance(other, tuple) and len(other) == 2:
            return zand(I.equals(o.fields['t'][0], other[0]), I.equals(o.fields['t'][1], other[1]))
        if isinstance(other, Ref) and isinstance(I.heap.get(other), Obj) and I.heap.get(other).cls in (HT, NIHT):
            t2 = I.heap.get(other).fields['t']
            return zand(I.equals(o.fields['t'][0], t2[0]), I.equals(o.fields['t'][1], t2[1]))
        return False


def ht_getattr(I, ref, o, attr, node):
    if attr == '__class__':
        return ExternV(o.cls)
    if attr == 'indexable':
        return o.cls == HT
    return NotImplemented


EXTERN_GETATTR[HT] = ht_getattr
EXTERN_GETATTR[NIHT] = ht_getattr


def header_class_name(I, h):
    """'tuple' | 'HeaderTuple' | 'NeverIndexedHeaderTuple' of a header value."""
    if isinstance(h, tuple):
        return 'tuple'
    return I.heap.get(h).cls.split('.')[-1]


# ---- abstract header sequences -----------------------------------------------------------------------------
HSEQ = 'abs-hdrseq'


def sym_hdrseq(I, desc, name):
    """hdrseq:bytes | hdrseq:str | hdrseq (either, decided per path) [:decoded -> every element is a HeaderTuple]"""
    parts = desc.split(':')[1:]
    kind = next((p for p in parts if p in ('bytes', 'str')), None)
    if kind is None:
        b = I.fresh(name + '.is_bytes', 'bool')
        kind = 'bytes' if I.choose([b, z3.Not(b)], 'header-text-type', names=['bytes', 'str']) == 0 else 'str'
    return I.heap.alloc(Obj(HSEQ, {'kind': kind, 'decoded': 'decoded' in parts, 'trace': name, 'name': name}))


SpecMixin.sym_builders['hdrseq'] = sym_hdrseq


def sym_header(I, seq, name='h'):
    o = I.heap.get(seq)
    kind = o.fields['kind']
    n = SymStr(kind, I.fresh(name + '.name', 'str'))
    v = SymStr(kind, I.fresh(name + '.value', 'str'))
    sel = I.fresh(name + '.shape', 'int')
    if o.fields['decoded']:
        c = 1 + I.choose([sel == 1, sel != 1], 'header-shape', names=['HeaderTuple', 'NeverIndexedHeaderTuple'])
    else:
        c = I.choose([sel == 0, sel == 1, z3.And(sel != 0, sel != 1)], 'header-shape', names=['tuple', 'HeaderTuple', 'NeverIndexedHeaderTuple'])
    if c == 0:
        return (n, v)
    return I.heap.alloc(Obj(HT if c == 1 else NIHT, {'t': (n, v)}))


def is_hseq(I, v):
    return isinstance(v, Ref) and isinstance(I.heap.get(v), Obj) and I.heap.get(v).cls == HSEQ


# ---- the loop rule -------------------------------------------------------------------------------------
def _loop_spec_for(I, s):
    fr = I.frames[-1]
    C = getattr(I, 'current_contract', None)
    if C is None or fr.fi is None or not C.loops:
        return None
    qn = fr.fi.qualname
    if qn != C.qualname and not qn.startswith(C.qualname + '.'):      # nested closures (inner()) belong to it
        return None
    return C.loops.get(ast.unparse(s.iter))


def _begin_abstract_loop(I, s, it, spec_):
    """Common part: entry obligations, havoc of the accumulators, invariant assumed.  Returns (label, spec frame)."""
    fr = I.frames[-1]
    sf = I.frames[0]
    label = 'loop[%s]' % ast.unparse(s.iter)
    _inv_obligations(I, spec_, fr, sf, 'invariant-entry', label)
    for name, desc in spec_['locals'].items():
        fr.locals[name] = desc(I, fr.locals) if callable(desc) else I.sym_value(desc, name)
        # acc_<name>: the accumulator's arbitrary value at the start of the iteration (a frozen copy)
        v = fr.locals[name]
        if isinstance(v, Ref) and hasattr(I.heap.get(v), 'copy'):
            v = I.heap.alloc(I.heap.get(v).copy())
        sf.locals['acc_' + name] = v
    for cl in spec_['invariant']:
        I.assume_spec(zbool(I.truth(I.spec_eval_in(sf, cl.ast, dict(fr.locals)))))
        if I.check() == z3.unsat:
            raise Unsupported('loop invariant is unsatisfiable in the arbitrary state (vacuous) at clause: %s' % cl.expr)
    return label, sf


def _inv_obligations(I, spec_, fr, sf, kind, label, which='invariant'):
    extra = dict(fr.locals)
    for cl in spec_.get(which, []):
        goal = zbool(I.truth(I.spec_eval_in(sf, cl.ast, extra)))
        I.emit_obligation('%s:%s:%s' % (kind, label, cl.label), goal, cl.expr, cl.props)


def _exhausted_or_element(I, s, it, sf, label):
    e = I.fresh('exhausted', 'bool')
    done = I.choose([e, z3.Not(e)], 'sequence', names=['exhausted', 'one-more-element']) == 0
    h = sym_header(I, it, 'h')
    sf.locals['h'] = h
    sf.locals['exhausted'] = done
    return done, h


def abstract_for_exec(I, s, it, spec_):
    """`for x in <abstract header sequence>` in an ordinary function (scan loops with early return)."""
    fr = I.frames[-1]
    label, sf = _begin_abstract_loop(I, s, it, spec_)
    done, h = _exhausted_or_element(I, s, it, sf, label)
    if done:
        I.exec_block(s.orelse)
        return
    I.assign_target(s.target, h)
    try:
        I.exec_block(s.body)
    except BreakSig:
        return
    except ContinueSig:
        pass
    _inv_obligations(I, spec_, fr, sf, 'iteration', label, 'iteration')
    _inv_obligations(I, spec_, fr, sf, 'invariant-preserved', label)
    raise PathEnd()


def abstract_for_gexec(I, s, it, spec_):
    """The same rule inside a generator function: values yielded by the arbitrary iteration are handed to the
    consumer AND recorded for the `iteration` clauses (name `yielded`)."""
    fr = I.frames[-1]
    label, sf = _begin_abstract_loop(I, s, it, spec_)
    done, h = _exhausted_or_element(I, s, it, sf, label)
    if done:
        yield from I.gexec_block(s.orelse)
        return
    I.assign_target(s.target, h)
    yielded = []
    try:
        for v in I.gexec_block(s.body):
            yielded.append(v)
            yield v
    except BreakSig:
        return
    except ContinueSig:
        pass
    sf.locals['yielded'] = I.heap.alloc(ListObj(list(yielded)))
    _inv_obligations(I, spec_, fr, sf, 'iteration', label, 'iteration')
    _inv_obligations(I, spec_, fr, sf, 'invariant-preserved', label)
    raise PathEnd()


_orig_ex_For = StmtMixin.ex_For
_orig_gexec_stmt = StmtMixin.gexec_stmt


def ex_For(self, s):
    spec_ = _loop_spec_for(self, s)
    if spec_ is not None:
        it = self.eval(s.iter)
        if is_hseq(self, it):
            return abstract_for_exec(self, s, it, spec_)
    return _orig_ex_For(self, s)


def gexec_stmt(self, s):
    if isinstance(s, ast.For):
        spec_ = _loop_spec_for(self, s)
        if spec_ is not None:
            it = self.eval(s.iter)
            if is_hseq(self, it):
                yield from abstract_for_gexec(self, s, it, spec_)
                return
    yield from _orig_gexec_stmt(self, s)


StmtMixin.ex_For = ex_For
StmtMixin.gexec_stmt = gexec_stmt


# ---- abstract list of strings (the cookie values collected by _combine_cookie_fields) ---------------------
ASL = 'abs-strlist'
sl_append = z3.Function('strlist_append', STR, STR, STR)
sl_join = z3.Function('strlist_join', STR, STR, STR)


@extern_method(ASL, 'append')
def asl_append(I, ref, o, args, kwargs, node):
    o.fields['n'] = o.fields['n'] + 1
    o.fields['acc'] = sl_append(o.fields['acc'], to_zstr(args[0]))
    return None


@extern_method(ASL, '__len__')
def asl_len(I, ref, o, args, kwargs, node):
    return o.fields['n']


@extern_method(ASL, '__bool__')
def asl_bool(I, ref, o, args, kwargs, node):
    return o.fields['n'] > 0


_orig_str_join = BuiltinMixin.str_join


def str_join(self, sep, it, node):
    if isinstance(it, Ref) and isinstance(self.heap.get(it), Obj) and self.heap.get(it).cls == ASL:
        o = self.heap.get(it)
        USED_MODELS.add('b"; ".join(list of cookie values) is an uninterpreted function of (separator, list)')
        return SymStr(str_kind(sep), sl_join(to_zstr(sep), o.fields['acc']))
    return _orig_str_join(self, sep, it, node)


BuiltinMixin.str_join = str_join

# ---- symbolic set.add over a known universe ---------------------------------------------------------------------
_orig_set_method = BuiltinMixin.set_method


def set_method(self, ref, o, name, args, node):
    if name == 'add' and isinstance(args[0], SymStr) and o.universe:
        for k in list(o.elems):
            o.elems[k] = zor(o.elems[k], self.equals(args[0], k))
        return None
    return _orig_set_method(self, ref, o, name, args, node)


BuiltinMixin.set_method = set_method

# ---- specification twins -----------------------------------------------------------------------------------------
from .hdrmodel import hook   # noqa  (registers function hooks by qualified name)


@hook('spec.specfns.has_ascii_upper')
def h_has_upper(I, fi, args, kwargs, node):
    x = args[0]
    if not isinstance(x, SymStr):
        return NotImplemented
    return contains_char_in(to_zstr(x), [(65, 90)])


@hook('spec.specfns.header_class')
def h_header_class(I, fi, args, kwargs, node):
    return header_class_name(I, args[0])


@hook('spec.specfns.stage_trace')
def h_stage_trace(I, fi, args, kwargs, node):
    if not is_hseq(I, args[0]):
        raise Unsupported('stage_trace of a value that is not an abstract header sequence (a stage was bypassed?)')
    return I.heap.get(args[0]).fields['trace']


@hook('spec.specfns.text_decodable')
def h_text_decodable(I, fi, args, kwargs, node):
    return codec_decodable(to_zstr(args[0]), to_zstr(args[1]))


@hook('spec.specfns.is_decimal')
def h_is_decimal(I, fi, args, kwargs, node):
    return z3.Function('int_parse_ok', STR, z3.BoolSort())(to_zstr(args[0]))


@hook('spec.specfns.decimal_value')
def h_decimal_value(I, fi, args, kwargs, node):
    return z3.Function('int_parse_val', STR, z3.IntSort())(to_zstr(args[0]))


def _asl(I, v):
    return I.heap.get(v)


@hook('spec.specfns.strlist_len')
def h_sl_len(I, fi, args, kwargs, node):
    return _asl(I, args[0]).fields['n']


@hook('spec.specfns.strlist_is_appended')
def h_sl_appended(I, fi, args, kwargs, node):
    return _asl(I, args[0]).fields['acc'] == sl_append(_asl(I, args[1]).fields['acc'], to_zstr(args[2]))


@hook('spec.specfns.strlist_same')
def h_sl_same(I, fi, args, kwargs, node):
    return _asl(I, args[0]).fields['acc'] == _asl(I, args[1]).fields['acc']


@hook('spec.specfns.strlist_joined')
def h_sl_joined(I, fi, args, kwargs, node):
    return SymStr(str_kind(args[1]), sl_join(to_zstr(args[1]), _asl(I, args[0]).fields['acc']))


def loop_defaults(I, sf):
    """Names the loop clauses use, for paths that never reach the loop (an early return before it)."""
    sf.locals.setdefault('exhausted', True)
    sf.locals.setdefault('h', (SymStr('bytes', I.fresh('nofield.name', 'str')), SymStr('bytes', I.fresh('nofield.value', 'str'))))
