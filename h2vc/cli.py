"""./check prove --property Cxx [--tier quick|thorough]

Exit codes: 0 held (known findings printed) / 1 VIOLATION / 2 UNDECIDED / 3 CHECKER-ERROR.
"""
import argparse
import hashlib
import importlib
import json
import multiprocessing as mp
import os
import pickle
import pkgutil
import subprocess
import sys
import time
import traceback

ROOT = os.path.dirname(os.path.dirname(os.path.abspath(__file__)))
sys.path.insert(0, ROOT)
# Where evidence/ and replays/ are written.  The registered commands never set it; the seeded-change tools
# (tools/seed_eval.py, tools/seed_recheck.py) point it at a scratch directory so that a run against a
# deliberately broken tree can never overwrite the evidence of the unchanged tree.
OUT = os.environ.get('H2VC_OUT_DIR') or ROOT

from h2vc import spec, prove, deps_model, extract, hdrmodel, strmodel  # noqa

ASSUMED_SEMANTICS = [
    'Python ints are mathematical integers (true in CPython)',
    'attribute and method resolution is static: no monkey-patching, no __getattr__',
    'users mutate a connection only through its public methods',
    'H2Configuration booleans are bools (its descriptor enforces it)',
    'dict iteration is insertion-ordered',
    'x // c and x % c are modelled only for literal c > 0 (equal to SMT div/mod there)',
    'self.config.logger.debug/trace(...) statements are dropped (user-supplied logger assumed pure, non-raising)',
    'message-formatting expressions ("..." % args) are opaque values',
]


def load_contracts():
    import contracts
    for m in pkgutil.iter_modules(contracts.__path__):
        if m.name.startswith(('c_', 'layouts', 'lem_')):
            importlib.import_module('contracts.' + m.name)
    spec.spec_module(os.path.join(ROOT, 'contracts', 'specfns.py'))


def contract_touches(C, prop):
    if prop in C.props:
        return True
    for cl in C.ensures + C.on_raise:
        if cl.props and prop in cl.props:
            return True
    for rc in C.raises:
        if rc.props and prop in rc.props:
            return True
    return False


_V = {}


def _verify_job(args):
    qn, prefixes, budget, tier, seed = args
    if os.environ.get('H2VC_DEBUG_HANG'):
        import faulthandler
        faulthandler.dump_traceback_later(int(os.environ['H2VC_DEBUG_HANG']), exit=True)
    try:
        if 'v' not in _V:
            load_contracts()
            _V['v'] = prove.Verifier(tier=tier, seed=seed)
        rep, left = _V['v'].verify_partial(qn, prefixes, budget)
        return qn, rep, left, None
    except Exception:
        return qn, None, [], traceback.format_exc()
    finally:
        if os.environ.get('H2VC_DEBUG_HANG'):
            faulthandler.cancel_dump_traceback_later()


_CACHE_KEY = {}


def cache_key(qn, tier):
    """Report cache key: every byte that can influence a function's report -- all of src/h2/*.py as read now,
    the engine, every contract / spec module, the tier.  A changed tree can therefore never hit an old entry."""
    if 'base' not in _CACHE_KEY:
        h = hashlib.sha256()
        for d in (extract.SRC_DIR, os.path.join(ROOT, 'h2vc'), os.path.join(ROOT, 'contracts')):
            for n in sorted(os.listdir(d)):
                if n.endswith('.py'):
                    h.update(d.encode() + b'/' + n.encode() + b'\0')
                    with open(os.path.join(d, n), 'rb') as f:
                        h.update(f.read())
        kf = os.path.join(ROOT, 'known_findings.json')      # open findings decide which callee clauses are assumable
        if os.path.exists(kf):
            with open(kf, 'rb') as f:
                h.update(f.read())
        _CACHE_KEY['base'] = h.hexdigest()
    return hashlib.sha256(('%s|%s|%s' % (_CACHE_KEY['base'], qn, tier)).encode()).hexdigest()


CACHE_DIR = os.path.join(ROOT, '.cache', 'reports')
CACHE_STATS = {'hits': [], 'misses': []}


def cache_load(qn, tier):
    if os.environ.get('H2VC_NO_CACHE'):
        return None
    p = os.path.join(CACHE_DIR, cache_key(qn, tier) + '.pkl')
    try:
        with open(p, 'rb') as f:
            rep = pickle.load(f)
        return rep if rep.qualname == qn else None
    except Exception:
        return None


def cache_store(qn, tier, rep):
    if os.environ.get('H2VC_NO_CACHE') or rep.undecided:
        return
    try:
        os.makedirs(CACHE_DIR, exist_ok=True)
        p = os.path.join(CACHE_DIR, cache_key(qn, tier) + '.pkl')
        with open(p + '.%d.tmp' % os.getpid(), 'wb') as f:
            pickle.dump(rep, f)
        os.replace(p + '.%d.tmp' % os.getpid(), p)
    except Exception:
        pass


def run_all(targets, tier, seed, serial=False, nproc=16):
    """Work queue over (function, subtree-prefix) jobs on a process pool.  A function whose report was already
    computed from byte-identical source, contracts and engine (another property's check on the same tree) is
    taken from the report cache; evidence says which."""
    reports, crashes = {}, []
    todo = []
    for qn in targets:
        rep = cache_load(qn, tier)
        if rep is not None:
            reports[qn] = rep
            CACHE_STATS['hits'].append(qn)
        else:
            todo.append(qn)
            CACHE_STATS['misses'].append(qn)
    reports, crashes = _run_all(todo, tier, seed, serial, nproc, reports)
    crashed = {qn for qn, _ in crashes}
    for qn in todo:
        if qn in reports and qn not in crashed:
            cache_store(qn, tier, reports[qn])
    return reports, crashes


def _run_all(targets, tier, seed, serial, nproc, reports):
    crashes = []
    jobs = [(qn, [[]], 24, tier, seed) for qn in targets]
    import concurrent.futures as cf
    pool = None if serial else cf.ProcessPoolExecutor(max_workers=nproc, mp_context=mp.get_context('fork'))
    rounds = 0
    try:
        while jobs:
            rounds += 1
            if serial:
                results = [_verify_job(j) for j in jobs]
            else:
                futs = [(j, pool.submit(_verify_job, j)) for j in jobs]
                results = []
                for j, f in futs:
                    try:
                        results.append(f.result(timeout=3000))
                    except Exception as e:      # worker died / timed out: checker error, never a verdict
                        results.append((j[0], None, [], 'worker failure: %r' % (e,)))
            jobs = []
            for qn, rep, left, err in results:
                if err:
                    crashes.append((qn, err))
                    continue
                if qn in reports:
                    prove.merge_reports(reports[qn], rep)
                else:
                    reports[qn] = rep
                # one job per unexplored prefix: dynamic load balancing
                budget = 40 if rounds < 3 else 250
                # group the unexplored prefixes into at most 2*nproc jobs per function
                per = max(1, (len(left) + 2 * nproc - 1) // (2 * nproc))
                for i in range(0, len(left), per):
                    jobs.append((qn, left[i:i + per], budget * per, tier, seed))
    finally:
        if pool is not None:
            pool.shutdown(wait=False, cancel_futures=True)
    return reports, crashes


def prove_zlemma(name, lprops, build, note, tier, prefer=None):
    import z3
    t0 = time.time()
    ob = prove.Obligation('lemma', 'lemma', name, ['lemma'], lprops, note or name)
    assumes, goal = build()
    s = z3.Solver()
    s.set('timeout', 10000 if tier == 'quick' else 60000)
    for a in assumes:
        s.add(a)
    s.add(z3.Not(goal))
    if prefer == 'cvc5':
        # string / sequence lemmas: cvc5 decides in about a second what z3 leaves unknown (measured, DESIGN 2.3)
        res = prove.run_cvc5(s.to_smt2(), 30000 if tier == 'quick' else 120000)
        if res == 'unsat':
            ob.result, ob.backend = 'proved', 'cvc5'
            ob.ms = (time.time() - t0) * 1000
            return ob
    r = s.check()
    if r == z3.unsat:
        ob.result, ob.backend = 'proved', 'z3'
    elif r == z3.sat:
        ob.result, ob.backend = 'refuted', 'z3'
        ob.witness = {'model': str(s.model())[:2000]}
    else:
        res = prove.run_cvc5(s.to_smt2(), 10000 if tier == 'quick' else 60000)
        if res == 'unsat':
            ob.result, ob.backend = 'proved', 'cvc5'
        else:
            ob.result, ob.backend, ob.note = 'unknown', 'z3+cvc5', 'z3: %s; cvc5: %s' % (s.reason_unknown(), res)
    ob.ms = (time.time() - t0) * 1000
    return ob


def claimed_level(prop):
    try:
        for c in json.load(open(os.path.join(ROOT, 'MANIFEST.json')))['checks']:
            if c['property_id'] == prop:
                return c['level_claimed']['category']
    except Exception:
        pass
    return 'proof'


def load_known_findings():
    p = os.path.join(ROOT, 'known_findings.json')
    if not os.path.exists(p):
        return []
    return json.load(open(p)).get('findings', [])


def norm_site(site):
    if not site:
        return ''
    txt = (site.get('text') or '').split('(')[0].strip()
    return '%s|%s|%s' % (site.get('function', ''), site.get('exception', ''), txt)


def finding_matches(f, prop, ob):
    if f.get('status') != 'open':
        return False
    props = f['property'] if isinstance(f['property'], list) else [f['property']]
    obls = f['obligation'] if isinstance(f['obligation'], list) else [f['obligation']]
    if prop not in props or ob.oid not in obls:
        return False
    if f.get('site') and f['site'] != norm_site(ob.site):
        return False
    if f.get('path_contains_any'):
        # each alternative is a list of decision labels that must all be on the path
        if not any(all(x in ob.path for x in alt) for alt in f['path_contains_any']):
            return False
    return True


def cmd_prove(a):
    t0 = time.time()
    prop = a.property
    tier = a.tier or os.environ.get('VERIF_TIER', 'quick')
    seed = int(os.environ.get('VERIF_SEED', '0'))
    load_contracts()
    crosscheck_note = None
    if tier == 'thorough':
        # engine soundness guard (DESIGN 2.8): interpreter vs CPython on concrete inputs; a mismatch is a checker error
        cc = subprocess.run([sys.executable, os.path.join(ROOT, 'tools', 'crosscheck.py'), '--cases', '300', '--seed', str(seed)],
                            capture_output=True, text=True, timeout=3600)
        crosscheck_note = (cc.stdout.strip().splitlines() or ['?'])[0]
        if cc.returncode != 0:
            print('CHECKER-ERROR property=%s engine cross-check against CPython failed:\n%s' % (prop, cc.stdout[-3000:] + cc.stderr[-1000:]))
            return 3
    targets = [qn for qn, C in spec.REGISTRY.items() if contract_touches(C, prop)]
    if a.function:
        targets = [t for t in targets if a.function in t]
    ev_path = os.path.join(OUT, 'evidence', prop + '.json')
    os.makedirs(os.path.dirname(ev_path), exist_ok=True)
    if not targets:
        print('CHECKER-ERROR property=%s no contracts registered' % prop)
        return 3
    reports, crashes = run_all(targets, tier, seed, serial=a.serial)

    known = load_known_findings()
    obligations, refuted, unknown, known_hits = [], [], [], []
    bounded_obs = []
    bounded_out_paths = 0
    modular_used, unproved_skipped = set(), set()
    undecided_fns, vacuous, bad_canary = [], [], []
    by_backend, solver_ms_total, solver_ms_max, paths = {}, 0.0, 0.0, 0
    fns = []
    inlined, models = set(), set()
    canaries = 0
    for qn, rep in reports.items():
        C = spec.REGISTRY[qn]
        paths += rep.paths
        bounded_out_paths += rep.bounded_out
        modular_used |= rep.modular_calls
        unproved_skipped |= getattr(rep, 'unproved_skipped', set())
        inlined |= {x for x in rep.inlined if x != qn}
        models |= rep.models_used
        if rep.undecided:
            undecided_fns.append((qn, rep.undecided))
        if rep.vacuous:
            vacuous.append(qn)
        if C.canary:
            if rep.canary:
                canaries += 1
            elif not rep.undecided and not rep.vacuous:
                bad_canary.append(qn)
        fns.append({'name': qn, 'sha256': rep.sha256, 'statements': rep.n_statements,
                    'dropped_statements': rep.dropped, 'paths': rep.paths, 'wall_s': round(rep.wall_s, 3)})
        for ob in rep.obligations:
            if prop not in ob.props:
                continue
            kf = [f for f in known if finding_matches(f, prop, ob)]
            if ob.result == 'refuted' and kf:
                known_hits.append((ob, kf[0]))
                continue
            if ob.bounded and ob.result == 'proved':
                bounded_obs.append(ob)      # bounded stand-in: reported, never counted as proved
                continue
            obligations.append(ob)
            by_backend[ob.backend] = by_backend.get(ob.backend, 0) + 1
            solver_ms_total += ob.ms
            solver_ms_max = max(solver_ms_max, ob.ms)
            if ob.result == 'refuted':
                refuted.append(ob)
            elif ob.result == 'unknown':
                unknown.append(ob)

    for name, (lprops, build, note, prefer) in sorted(spec.ZLEMMAS.items()):
        if prop in lprops:
            ob = prove_zlemma(name, lprops, build, note, tier, prefer)
            obligations.append(ob)
            by_backend[ob.backend] = by_backend.get(ob.backend, 0) + 1
            solver_ms_total += ob.ms
            if ob.result == 'refuted':
                refuted.append(ob)
            elif ob.result == 'unknown':
                unknown.append(ob)
    discharged = sum(1 for ob in obligations if ob.result == 'proved')
    status = 0
    lines = []
    # replay refutations
    violations = []
    for ob in refuted:
        violations.append(write_replay(prop, ob, reports[ob.fn]))
    seen_kf = set()
    for ob, f in known_hits:
        key = f.get('id') or (f['obligation'] + f.get('site', ''))
        if key in seen_kf:
            continue
        seen_kf.add(key)
        lines.append('KNOWN-FINDING: property=%s %s' % (prop, f.get('what', f['obligation'])))
    claimed = claimed_level(prop)
    only_bounded = (len(obligations) == 0 and len(bounded_obs) > 0 and claimed == 'other')
    if crashes or vacuous or bad_canary or (len(obligations) == 0 and not known_hits and not only_bounded):
        status = 3
        for qn, err in crashes:
            lines.append('CHECKER-ERROR property=%s function=%s crashed:\n%s' % (prop, qn, err))
        for qn in vacuous:
            lines.append('CHECKER-ERROR property=%s function=%s vacuous precondition' % (prop, qn))
        for qn in bad_canary:
            lines.append('CHECKER-ERROR property=%s function=%s canary not refuted (engine unsound or clause unreachable)' % (prop, qn))
        if len(obligations) == 0 and not only_bounded:
            lines.append('CHECKER-ERROR property=%s zero obligations generated' % prop)
    if violations:
        status = 1
        seen = set()
        for path, confirmed, ob in violations:
            if ob.oid + str(ob.site) in seen:
                continue
            seen.add(ob.oid + str(ob.site))
            lines.append('VIOLATION property=%s replay=%s%s' % (prop, path, '' if confirmed else ' no-failing-input-found'))
            lines.append('  obligation %s :: %s' % (ob.oid, ob.clause))
    elif status == 0 and (unknown or undecided_fns):
        status = 2
        for ob in unknown:
            lines.append('UNDECIDED property=%s obligation=%s (%s)' % (prop, ob.oid, ob.note))
        for qn, why in undecided_fns:
            lines.append('UNDECIDED property=%s function=%s: %s' % (prop, qn, '; '.join(why[:3])))

    # evidence
    samples = [ob.to_json() for ob in obligations[:3]] + [ob.to_json() for ob in obligations[-2:]]
    level = 'proof' if claimed != 'other' else 'other'
    ev = {
        'property_id': prop, 'tier': tier, 'seed': seed, 'level': level,
        'coverage': {
            'obligations': len(obligations), 'discharged': discharged,
            'checker_cmd': './check prove --property %s --tier %s' % (prop, tier),
            'trusted_base': sorted(models) + ['z3 %s' % _z3v(), 'cvc5 1.0.3 (on z3 unknown)',
                                               'h2vc symbolic interpreter (%s)' % prove.ENGINE_VERSION],
            'samples': samples,
            'functions_under_contract': sorted(fns, key=lambda d: d['name']),
            'inlined': sorted(inlined),
            'by_backend': by_backend, 'solver_ms_total': round(solver_ms_total, 1),
            'solver_ms_max': round(solver_ms_max, 1), 'paths': paths,
            'vacuity_checks': len(reports), 'canaries_refuted': canaries,
            'known_finding_obligations': sorted({ob.oid for ob, _ in known_hits}),
            'refuted': [ob.to_json() for ob in refuted[:20]],
            'unknown': [ob.to_json() for ob in unknown[:20]],
            'undecided_functions': [{'name': qn, 'why': why} for qn, why in undecided_fns],
            'bounded_standins': _bounded_summary(bounded_obs, bounded_out_paths),
            'modular_calls': sorted(modular_used),
            'callee_clauses_not_assumed_because_of_an_open_finding': sorted(unproved_skipped),
            'tree': tree_id(),
            'report_cache': {'reused_from_an_earlier_check_on_the_identical_tree': sorted(CACHE_STATS['hits']),
                             'computed_in_this_run': sorted(CACHE_STATS['misses'])},
        },
        'assumptions': ASSUMED_SEMANTICS + ['dependency model: ' + m for m in sorted(models)],
        'engine_crosscheck': crosscheck_note or 'not run in the quick tier (python3-vt tools/crosscheck.py; run by every thorough check)',
        'wall_s': round(time.time() - t0, 2),
        'violations': len({ob.oid for ob in refuted}),
    }
    if level == 'other':
        nb = len(bounded_obs)
        ev['coverage']['explanation'] = (
            'Contract-based check whose obligations were all generated from the real source and discharged by z3, but '
            'every path of the functions under contract relies on a stated bound (see bounded_standins: settings '
            'dictionaries / stream tables of a bounded number of entries), so this is a BOUNDED stand-in: %d obligations '
            'were discharged within the bound, none is counted as proved (obligations == discharged == %d unbounded).'
            % (nb, len(obligations)))
        ev['coverage']['evaluations'] = nb
        ev['coverage']['distinct_nontrivial'] = len({(ob.oid, tuple(ob.path)) for ob in bounded_obs})
        ev['coverage']['rule'] = 'one case = one (function, path, clause) obligation discharged within the stated bound; distinct by obligation id and path'
        if not ev['coverage']['samples']:
            ev['coverage']['samples'] = [ob.to_json() for ob in bounded_obs[:3]] + [ob.to_json() for ob in bounded_obs[-2:]]
    with open(ev_path + '.tmp', 'w') as f:
        json.dump(ev, f, indent=1, default=str)
    os.replace(ev_path + '.tmp', ev_path)
    for ln in lines:
        print(ln)
    print('property=%s tier=%s functions=%d paths=%d obligations=%d discharged=%d bounded=%d refuted=%d unknown=%d known=%d exit=%d (%.1fs)'
          % (prop, tier, len(reports), paths, len(obligations), discharged, len(bounded_obs), len(refuted), len(unknown),
             len(known_hits), status, time.time() - t0))
    return status


def _bounded_summary(obs, out_paths):
    by = {}
    for ob in obs:
        key = (ob.fn, tuple(ob.bounded))
        by[key] = by.get(key, 0) + 1
    out = [{'function': fn, 'bound': list(b), 'obligations_checked_within_bound': n,
            'counted_as_proved': False} for (fn, b), n in sorted(by.items())]
    if out_paths:
        out.append({'paths_left_unexplored_beyond_the_bound': out_paths})
    return out


def tree_id():
    """Which source text the obligations were generated from: sha256 over src/h2/*.py as read on this run."""
    h = hashlib.sha256()
    names = sorted(n for n in os.listdir(extract.SRC_DIR) if n.endswith('.py'))
    for n in names:
        h.update(n.encode() + b'\0')
        with open(os.path.join(extract.SRC_DIR, n), 'rb') as f:
            h.update(f.read())
    out = {'src_dir': extract.SRC_DIR, 'files': len(names), 'sha256': h.hexdigest()}
    try:
        g = subprocess.run(['git', '-C', extract.REPO, 'rev-parse', 'HEAD'], capture_output=True, text=True, timeout=20)
        d = subprocess.run(['git', '-C', extract.REPO, 'status', '--porcelain', '--', 'src'], capture_output=True, text=True, timeout=20)
        if g.returncode == 0:
            out['git_head'] = g.stdout.strip()
            out['src_modified_files'] = [l[3:] for l in d.stdout.splitlines()]
    except Exception:
        pass
    return out


def _z3v():
    import z3
    return z3.get_version_string()


def write_replay(prop, ob, rep):
    d = os.path.join(OUT, 'replays', prop)
    os.makedirs(d, exist_ok=True)
    h = hashlib.sha256((ob.oid + json.dumps(ob.site, sort_keys=True, default=str) + ' '.join(ob.path)).encode()).hexdigest()[:12]
    path = os.path.join(d, h + '.json')
    C = spec.REGISTRY[ob.fn]
    rec = {'property': prop, 'obligation': ob.oid, 'kind': ob.kind, 'clause': ob.clause,
           'function': ob.fn, 'path': ob.path, 'site': ob.site, 'witness': ob.witness,
           'solver': {'backend': ob.backend, 'result': ob.result, 'ms': ob.ms},
           'requires': [c.expr for c in C.requires], 'ghost_update': C.ghost_update,
           'let': C.let, 'declared_raises': [r.exc for r in C.raises],
           'function_sha256': rep.sha256}
    confirmed = False
    with open(path, 'w') as f:
        json.dump(rec, f, indent=1, default=str)
    try:
        out = subprocess.run(['/venv/bin/python', os.path.join(ROOT, 'replay', 'run.py'), path],
                             capture_output=True, text=True, timeout=120)
        rec['native_replay'] = {'exit': out.returncode, 'stdout': out.stdout[-4000:], 'stderr': out.stderr[-2000:]}
        confirmed = out.returncode == 1        # 1 = clause false on the real code
    except Exception as e:
        rec['native_replay'] = {'error': str(e)}
    with open(path, 'w') as f:
        json.dump(rec, f, indent=1, default=str)
    return os.path.relpath(path, OUT), confirmed, ob


def cmd_determinism(a):
    t0 = time.time()
    from h2vc import determinism
    prop = 'C28'
    tier = a.tier or os.environ.get('VERIF_TIER', 'quick')
    seed = int(os.environ.get('VERIF_SEED', '0'))
    obs, notes = determinism.run(extract.SRC_DIR)
    bad = [o for o in obs if o['result'] != 'proved']
    os.makedirs(os.path.join(OUT, 'evidence'), exist_ok=True)
    status = 0
    lines = []
    if not obs:
        status = 3
        lines.append('CHECKER-ERROR property=C28 zero obligations generated')
    for o in bad:
        status = 1
        d = os.path.join(OUT, 'replays', prop)
        os.makedirs(d, exist_ok=True)
        path = os.path.join(d, hashlib.sha256(o['id'].encode()).hexdigest()[:12] + '.json')
        json.dump({'property': prop, 'obligation': o['id'], 'clause': o['clause'], 'detail': o['detail'],
                   'note': 'static determinism obligation failed; no input is needed to exhibit it: the listed '
                           'construct makes output depend on something other than the call sequence'}, open(path, 'w'), indent=1)
        lines.append('VIOLATION property=%s replay=%s no-failing-input-found' % (prop, os.path.relpath(path, OUT)))
        lines.append('  obligation %s :: %s :: %s' % (o['id'], o['clause'], o['detail']))
    ev = {'property_id': prop, 'tier': tier, 'seed': seed, 'level': 'other',
          'coverage': {'explanation': 'Static per-function determinism obligations over every function of src/h2 '
                       '(import allow-list; no clock/random/os/id/hash calls; no order-sensitive use of set/frozenset values, '
                       'with set-typed names inferred per module and propagated through intra-module calls). Together with the '
                       'per-call contracts (the symbolic transition relation of every function under contract is a function of '
                       'pre-state and arguments) two connections driven by the same calls behave identically. No multi-process run.',
                       'obligations': len(obs), 'discharged': len(obs) - len(bad),
                       'checker_cmd': './check determinism --tier %s' % tier,
                       'samples': obs[:3] + obs[-2:], 'message_text_only': notes,
                       'trusted_base': ['CPython, hyperframe and hpack are deterministic functions of their inputs',
                                        'dict iteration is insertion ordered']},
          'assumptions': ['exception message text that formats a set is excluded (type and code are compared)'],
          'wall_s': round(time.time() - t0, 2), 'violations': len(bad)}
    ev['coverage']['tree'] = tree_id()
    with open(os.path.join(OUT, 'evidence', 'C28.json.tmp'), 'w') as f:
        json.dump(ev, f, indent=1)
    os.replace(os.path.join(OUT, 'evidence', 'C28.json.tmp'), os.path.join(OUT, 'evidence', 'C28.json'))
    for ln in lines:
        print(ln)
    print('property=C28 obligations=%d discharged=%d exit=%d' % (len(obs), len(obs) - len(bad), status))
    return status


def cmd_replay(a):
    out = subprocess.run(['/venv/bin/python', os.path.join(ROOT, 'replay', 'run.py'), a.path])
    return out.returncode


def main():
    ap = argparse.ArgumentParser()
    sub = ap.add_subparsers(dest='cmd')
    p = sub.add_parser('prove')
    p.add_argument('--property', required=True)
    p.add_argument('--tier', default=None)
    p.add_argument('--function', default=None)
    p.add_argument('--serial', action='store_true')
    dt = sub.add_parser('determinism')
    dt.add_argument('--tier', default=None)
    cc = sub.add_parser('crosscheck')
    cc.add_argument('--cases', default='300')
    r = sub.add_parser('replay')
    r.add_argument('path')
    a = ap.parse_args()
    if a.cmd == 'prove':
        try:
            sys.exit(cmd_prove(a))
        except SystemExit:
            raise
        except Exception:
            print('CHECKER-ERROR property=%s\n%s' % (a.property, traceback.format_exc()))
            sys.exit(3)
    elif a.cmd == 'crosscheck':
        sys.exit(subprocess.run([sys.executable, os.path.join(ROOT, 'tools', 'crosscheck.py'), '--cases', a.cases]).returncode)
    elif a.cmd == 'determinism':
        sys.exit(cmd_determinism(a))
    elif a.cmd == 'replay':
        sys.exit(cmd_replay(a))
    else:
        ap.print_help()
        sys.exit(3)


if __name__ == '__main__':
    main()
