"""Calls: inlining of h2 functions, instantiation, iteration protocol."""
import ast
import z3
from .values import *  # noqa
from .core import *  # noqa
from . import extract
from .stmts import GenObj

MAX_DEPTH = 40


class CallMixin:
    def eval_call(self, e):
        # super().__init__(...) / super(X, self).__init__(...)
        f = e.func
        if isinstance(f, ast.Attribute) and isinstance(f.value, ast.Call) \
                and isinstance(f.value.func, ast.Name) and f.value.func.id == 'super':
            return self.call_super(e)
        # spec special forms
        if isinstance(f, ast.Name) and f.id in ('old', 'forall_int', 'exists_int', 'implies') and self.spec_mode:
            return self.spec_special(e)
        if isinstance(f, ast.Name) and f.id in ('all', 'any') and self.spec_mode and len(e.args) == 1 \
                and isinstance(e.args[0], ast.GeneratorExp):
            r = self.spec_quantifier(f.id, e.args[0])
            if r is not NotImplemented:
                return r
        fv = self.eval(f)
        args = []
        for a in e.args:
            if isinstance(a, ast.Starred):
                args.extend(self.iter_values(self.eval(a.value), e))
            else:
                args.append(self.eval(a))
        kwargs = {}
        for k in e.keywords:
            if k.arg is None:
                raise Unsupported('**kwargs call')
            kwargs[k.arg] = self.eval(k.value)
        return self.call_value(fv, args, kwargs, e)

    def call_value(self, fv, args, kwargs, node=None):
        if isinstance(fv, FuncV):
            return self.call_function(fv.fi, args, kwargs, node, closure=fv.closure)
        if isinstance(fv, BoundV):
            return self.call_function(fv.fi, [fv.recv] + list(args), kwargs, node)
        if isinstance(fv, ClassV):
            return self.instantiate(fv.ci, args, kwargs, node)
        if isinstance(fv, ExternV):
            return self.call_extern(fv.dotted, args, kwargs, node)
        if isinstance(fv, BuiltinMethod):
            return self.call_builtin_method(fv.recv, fv.name, args, kwargs, node)
        if isinstance(fv, Ref):
            o = self.heap.get(fv)
            if isinstance(o, Obj) and o.cls == 'namedtuple-class':
                return self.namedtuple_new(fv, o, args, kwargs)
        raise Unsupported('call of %r (line %s)' % (fv, getattr(node, 'lineno', '?')))

    # ------------------------------------------------------------------
    def bind_args(self, fi, args, kwargs, node=None):
        a = fi.node.args
        if a.vararg or a.kwarg:
            return self.bind_varargs(fi, args, kwargs)
        params = [p.arg for p in a.posonlyargs + a.args]
        if len(args) > len(params):
            self.raise_builtin('TypeError', node=node)
        loc = {}
        for p, v in zip(params, args):
            loc[p] = v
        for k, v in kwargs.items():
            if k in loc or (k not in params and k not in [x.arg for x in a.kwonlyargs]):
                self.raise_builtin('TypeError', node=node)
            loc[k] = v
        defaults = a.defaults
        for p, d in zip(params[len(params) - len(defaults):], defaults):
            if p not in loc:
                loc[p] = self.eval_default(fi, d)
        for p, d in zip(a.kwonlyargs, a.kw_defaults):
            if p.arg not in loc:
                if d is None:
                    self.raise_builtin('TypeError', node=node)
                loc[p.arg] = self.eval_default(fi, d)
        for p in params:
            if p not in loc:
                self.raise_builtin('TypeError', node=node)
        return loc

    def bind_varargs(self, fi, args, kwargs):
        a = fi.node.args
        params = [p.arg for p in a.args]
        loc = {}
        for p, v in zip(params, args):
            loc[p] = v
        if a.vararg:
            loc[a.vararg.arg] = tuple(args[len(params):])
        kw = dict(kwargs)
        for p in params:
            if p in kw:
                loc[p] = kw.pop(p)
        if a.kwarg:
            loc[a.kwarg.arg] = self.heap.alloc(DictObj(dict(kw)))
        defaults = a.defaults
        for p, d in zip(params[len(params) - len(defaults):], defaults):
            if p not in loc:
                loc[p] = self.eval_default(fi, d)
        return loc

    def eval_default(self, fi, d):
        return self.eval_in_module(d, fi.module)

    def call_function(self, fi, args, kwargs, node=None, closure=None):
        qn = fi.qualname
        if qn in self.modular and qn in self.contracts and not self.spec_mode:
            return self.call_modular(fi, self.contracts[qn], args, kwargs, node)
        C0 = getattr(self, 'current_contract', None)
        if C0 is not None and qn == C0.qualname and self.call_depth > 0 and not self.spec_mode:
            # self-recursive call: use the function's own contract (induction), after checking the measure
            if C0.decreases is None:
                raise Unsupported('recursive call of %s needs a `decreases` measure in its contract' % qn)
            return self.call_modular(fi, C0, args, kwargs, node, decreases=True)
        hook = self.function_hooks.get(qn)
        if hook is not None:
            r = hook(self, fi, args, kwargs, node)
            if r is not NotImplemented:
                return r
        self.inlined.add(qn)
        loc = self.bind_args(fi, args, kwargs, node)
        frame = Frame(fi, loc, fi.module, closure)
        if fi.is_generator:
            return self.heap.alloc(self.make_generator(fi, frame))
        if self.call_depth > MAX_DEPTH:
            raise Unsupported('recursion depth exceeded in %s (needs a contract + decreases)' % qn)
        self.frames.append(frame)
        self.call_depth += 1
        try:
            self.exec_block(fi.node.body)
            return None
        except ReturnSig as r:
            return r.value
        finally:
            self.call_depth -= 1
            self.frames.pop()

    function_hooks = {}

    def make_generator(self, fi, frame):
        interp = self

        def run():
            g = interp.gexec_block(fi.node.body)
            while True:
                interp.frames.append(frame)
                try:
                    try:
                        v = next(g)
                    except StopIteration:
                        return
                    except ReturnSig:
                        return
                finally:
                    interp.frames.pop()
                yield v
        return GenObj(run(), fi)

    # ------------------------------------------------------------------
    def instantiate(self, ci, args, kwargs, node=None):
        if ci.enum_kind:
            return self.enum_from_value(ci, args[0], node)
        special = self.special_instantiate(ci, args, kwargs, node)
        if special is not NotImplemented:
            return special
        ref = self.heap.alloc(Obj(ci, {}))
        init = self.P.lookup_method(ci, '__init__')
        if init is not None:
            self.call_function(init, [ref] + list(args), kwargs, node)
        else:
            self.extern_base_init(ref, ci, args, kwargs, node)
        return ref

    def extern_base_init(self, ref, ci, args, kwargs, node):
        """__init__ of the first extern base (Exception, object...)."""
        o = self.heap.get(ref)
        if self.is_exception_class(ci):
            o.fields['args'] = tuple(args)
            return
        if args or kwargs:
            self.raise_builtin('TypeError', node=node)

    def is_exception_class(self, ci):
        for c in self.P.mro(ci):
            if isinstance(c, tuple) and canon_exc_name(c[1]) is not None:
                return True
        return False

    def call_super(self, e):
        f = e.func            # Attribute(value=Call(super...), attr=name)
        fr = self.frames[-1]
        cls = fr.fi.cls
        selfv = fr.locals.get('self')
        if cls is None or selfv is None:
            raise Unsupported('super outside method')
        args = []
        for a in e.args:
            if isinstance(a, ast.Starred):
                args.extend(self.iter_values(self.eval(a.value), e))
            else:
                args.append(self.eval(a))
        kwargs = {}
        for k in e.keywords:
            if k.arg is None:                       # **kwargs
                d = self.heap.get(self.eval(k.value))
                if not isinstance(d, DictObj):
                    raise Unsupported('** of a non-dict value')
                for kk, vv in d.items.items():
                    kwargs[kk] = vv
            else:
                kwargs[k.arg] = self.eval(k.value)
        mro = self.P.mro(self.obj_class(selfv))
        i = mro.index(cls)
        for c in mro[i + 1:]:
            if isinstance(c, extract.ClassInfo):
                if f.attr in c.methods:
                    return self.call_function(c.methods[f.attr], [selfv] + args, kwargs, e)
            else:
                return self.call_extern_super(selfv, c[1], f.attr, args, kwargs, e)
        raise Unsupported('super().%s not found' % f.attr)

    def call_extern_super(self, selfv, base, name, args, kwargs, node):
        if name == '__init__' and canon_exc_name(base) is not None:
            self.heap.get(selfv).fields['args'] = tuple(args)
            return None
        r = self.extern_super_model(selfv, base, name, args, kwargs, node)
        if r is not NotImplemented:
            return r
        raise Unsupported('super().%s on extern base %s' % (name, base))

    def namedtuple_new(self, clsref, clso, args, kwargs):
        names = clso.fields['fields']
        vals = dict(zip(names, args))
        vals.update(kwargs)
        if set(vals) != set(names):
            self.raise_builtin('TypeError')
        o = Obj(clso, {n: vals[n] for n in names})
        return self.heap.alloc(o)

    def obj_class(self, v):
        if isinstance(v, Ref):
            return self.heap.get(v).cls
        if isinstance(v, View):
            return v.cls
        raise Unsupported('class of %r' % (v,))

    # ------------------------------------------------------------------
    def enum_info(self, ci):
        """name -> int for an extracted enum class (values resolved lazily)."""
        if not hasattr(ci, 'enum_values'):
            vals = {}
            for name, expr in ci.enum_members.items():
                v = self.eval_in_module(expr, ci.module)
                if isinstance(v, EnumV):
                    v = v.val
                if not isinstance(v, int):
                    raise Unsupported('enum member value %s.%s' % (ci.name, name))
                vals[name] = v
            ci.enum_values = vals
        return ci.enum_values

    def enum_from_value(self, ci, v, node=None):
        """Enum(v): member lookup by value; ValueError if none."""
        vals = self.enum_info(ci)
        if isinstance(v, EnumV) and v.cls is ci:
            return v
        v = self.unopt(v, node)
        if v is None:
            self.raise_builtin('ValueError', node=node)
        iv = self.int_of(v)
        if isinstance(iv, int):
            if iv in vals.values():
                return EnumV(ci, iv)
            self.raise_builtin('ValueError', node=node)
        member = zor(*[iv == x for x in sorted(set(vals.values()))])
        if self.branch(member, 'enum-member@%s' % getattr(node, 'lineno', '?')):
            return EnumV(ci, iv)
        self.raise_builtin('ValueError', node=node)

    def concretize_enum(self, ev, label='enum'):
        """Fork over the members of a symbolic EnumV; returns a concrete EnumV."""
        if ev.concrete:
            return ev
        info = self.enum_info(ev.cls)
        vals = sorted(set(info.values()))
        names = [[k for k, v in info.items() if v == x][0] for x in vals]
        i = self.choose([ev.val == x for x in vals], label, names)
        return EnumV(ev.cls, vals[i])

    # ------------------------------------------------------------------
    def iter_values(self, v, node=None):
        """Python iteration protocol over a value -> Python generator of values."""
        if isinstance(v, tuple):
            yield from v
            return
        if isinstance(v, (bytes, str)):
            if isinstance(v, bytes):
                yield from v
            else:
                yield from v
            return
        if isinstance(v, Ref):
            o = self.heap.get(v)
            if isinstance(o, ListObj):
                if o.tail is not None:
                    yield from self.iter_abstract_list(v, o, node)
                    return
                i = 0
                while i < len(o.items):      # list may grow during iteration
                    yield o.items[i]
                    i += 1
                return
            if isinstance(o, GenObj):
                yield from o.pygen
                return
            if isinstance(o, DictObj):
                yield from [k.e if isinstance(k, ZKey) else k for k in o.items.keys()]
                return
            if isinstance(o, SetObj):
                yield from self.iter_set(o, node)
                return
            if isinstance(o, Obj):
                yield from self.iter_obj(v, o, node)
                return
        if v is None:
            self.raise_builtin('TypeError', node=node)
        raise Unsupported('iteration over %r (line %s)' % (v, getattr(node, 'lineno', '?')))
