"""C28: static per-function determinism obligations over the real source.

For every function in src/h2 (not only those under contract):
  (a) no nondeterminism source: module imports within an allow-list; no call
      to time/random/os/uuid/secrets/datetime/id()/hash()/object repr defaults;
  (b) no hash-order flow: no order-sensitive use (for / comprehension /
      list() / tuple() / join / sorted-less indexing / pop / next(iter()))
      of a value whose inferred type is set/frozenset (iteration order of a
      set of str/bytes depends on PYTHONHASHSEED).  %-formatting a set into an
      exception MESSAGE is recorded separately (message text is excluded from
      "the same exceptions": type and code are compared).
Dict iteration is insertion ordered and therefore a function of the call
sequence.  This is level `other`: a static argument, not a multi-process run.
"""
import ast
import os

ALLOWED_IMPORTS = {
    'base64', 'enum', 'collections', 'collections.abc', 're', 'string', 'binascii', 'struct', 'warnings',
    '__future__', 'hyperframe', 'hyperframe.frame', 'hyperframe.exceptions', 'hyperframe.flags',
    'hpack', 'hpack.hpack', 'hpack.exceptions', 'hpack.struct', 'h2', 'h2.errors', 'h2.exceptions', 'h2.config',
    'h2.events', 'h2.settings', 'h2.windows', 'h2.utilities', 'h2.frame_buffer', 'h2.stream', 'h2.connection',
    'binascii',
}
FORBIDDEN_CALLS = {'id', 'hash', 'input', 'open', 'vars', 'globals', 'locals', 'dir'}
FORBIDDEN_MODULES = {'time', 'random', 'os', 'uuid', 'secrets', 'datetime', 'socket', 'threading', 'asyncio',
                     'sys', 'tempfile', 'subprocess', 'select', 'signal'}


def _is_set_expr(n, setnames):
    if isinstance(n, (ast.Set, ast.SetComp)):
        return True
    if isinstance(n, ast.Call) and isinstance(n.func, ast.Name) and n.func.id in ('set', 'frozenset'):
        return True
    if isinstance(n, ast.Name) and n.id in setnames:
        return True
    if isinstance(n, ast.BinOp) and isinstance(n.op, (ast.BitAnd, ast.BitOr, ast.Sub, ast.BitXor)):
        return _is_set_expr(n.left, setnames) or _is_set_expr(n.right, setnames)
    return False


def module_set_names(tree):
    names = set()
    for node in tree.body:
        if isinstance(node, ast.Assign) and len(node.targets) == 1 and isinstance(node.targets[0], ast.Name):
            if _is_set_expr(node.value, names):
                names.add(node.targets[0].id)
    return names


def analyse_function(fn, mod_sets, param_sets=()):
    """-> (sources, order_flows, message_flows)"""
    setnames = set(mod_sets) | set(param_sets)
    # local inference (flow-insensitive): names ever assigned a set expression
    changed = True
    while changed:
        changed = False
        for n in ast.walk(fn):
            if isinstance(n, ast.Assign) and len(n.targets) == 1 and isinstance(n.targets[0], ast.Name):
                if _is_set_expr(n.value, setnames) and n.targets[0].id not in setnames:
                    setnames.add(n.targets[0].id)
                    changed = True
    sources, flows, msg = [], [], []
    for n in ast.walk(fn):
        if isinstance(n, ast.Call):
            f = n.func
            if isinstance(f, ast.Name) and f.id in FORBIDDEN_CALLS:
                sources.append('%s() at line %d' % (f.id, n.lineno))
            if isinstance(f, ast.Attribute) and isinstance(f.value, ast.Name) and f.value.id in FORBIDDEN_MODULES:
                sources.append('%s.%s at line %d' % (f.value.id, f.attr, n.lineno))
            if isinstance(f, ast.Name) and f.id in ('list', 'tuple', 'sorted', 'enumerate', 'iter', 'next') and n.args \
                    and _is_set_expr(n.args[0], setnames) and f.id != 'sorted':
                flows.append('%s(<set>) at line %d' % (f.id, n.lineno))
            if isinstance(f, ast.Attribute) and f.attr == 'join' and n.args and _is_set_expr(n.args[0], setnames):
                flows.append('join(<set>) at line %d' % n.lineno)
            if isinstance(f, ast.Attribute) and f.attr == 'pop' and _is_set_expr(f.value, setnames):
                flows.append('<set>.pop() at line %d' % n.lineno)
        if isinstance(n, (ast.For, ast.comprehension)) and _is_set_expr(n.iter, setnames):
            flows.append('iteration over <set> at line %d' % getattr(n, 'lineno', getattr(n.iter, 'lineno', 0)))
        if isinstance(n, ast.BinOp) and isinstance(n.op, ast.Mod):
            args = n.right.elts if isinstance(n.right, ast.Tuple) else [n.right]
            if any(_is_set_expr(a, setnames) for a in args):
                msg.append('%%-format of <set> at line %d' % n.lineno)
    return sources, flows, msg


def run(src_dir):
    """-> list of obligation dicts {id, clause, result, detail}"""
    obs = []
    notes = []
    for fname in sorted(os.listdir(src_dir)):
        if not fname.endswith('.py'):
            continue
        path = os.path.join(src_dir, fname)
        tree = ast.parse(open(path).read())
        modname = 'h2.' + fname[:-3]
        bad_imports = []
        for node in ast.walk(tree):
            if isinstance(node, ast.Import):
                for a in node.names:
                    if a.name not in ALLOWED_IMPORTS:
                        bad_imports.append(a.name)
            elif isinstance(node, ast.ImportFrom):
                base = node.module or ''
                if node.level:
                    base = 'h2' + ('.' + base if base else '')
                if base not in ALLOWED_IMPORTS:
                    bad_imports.append(base)
        obs.append({'id': '%s::imports' % modname, 'clause': 'imports within the deterministic allow-list',
                    'result': 'proved' if not bad_imports else 'refuted', 'detail': bad_imports})
        mod_sets = module_set_names(tree)
        # which helper parameters receive sets: propagate one level through calls inside the module
        fns = {}
        for node in ast.walk(tree):
            if isinstance(node, ast.FunctionDef):
                fns.setdefault(node.name, node)
        param_sets = {name: set() for name in fns}
        for _ in range(3):
            for name, fn in fns.items():
                local_sets = set(mod_sets) | param_sets[name]
                for n in ast.walk(fn):
                    if isinstance(n, ast.Assign) and len(n.targets) == 1 and isinstance(n.targets[0], ast.Name) \
                            and _is_set_expr(n.value, local_sets):
                        local_sets.add(n.targets[0].id)
                for n in ast.walk(fn):
                    if isinstance(n, ast.Call) and isinstance(n.func, ast.Name) and n.func.id in fns:
                        callee = fns[n.func.id]
                        params = [a.arg for a in callee.args.args]
                        for p, a in zip(params, n.args):
                            if _is_set_expr(a, local_sets):
                                param_sets[n.func.id].add(p)
        for node in ast.walk(tree):
            if isinstance(node, ast.ClassDef):
                for sub in node.body:
                    if isinstance(sub, ast.FunctionDef):
                        fns.setdefault(node.name + '.' + sub.name, sub)
        seen = set()
        for name, fn in sorted(fns.items()):
            if id(fn) in seen:
                continue
            seen.add(id(fn))
            if fn.name in ('__repr__', '__str__'):
                continue      # debug representations are not part of bytes / events / exception types
            src, flows, msg = analyse_function(fn, mod_sets, param_sets.get(fn.name, ()))
            obs.append({'id': '%s.%s::no-nondeterminism-source' % (modname, name),
                        'clause': 'no call to clocks, randomness, os, id(), hash()',
                        'result': 'proved' if not src else 'refuted', 'detail': src})
            obs.append({'id': '%s.%s::no-hash-order-flow' % (modname, name),
                        'clause': 'no order-sensitive use of a set/frozenset value',
                        'result': 'proved' if not flows else 'refuted', 'detail': flows})
            for m in msg:
                notes.append('%s.%s: %s (exception MESSAGE text only; excluded from the claim)' % (modname, name, m))
    return obs, notes
