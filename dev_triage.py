import sys, importlib, json, pkgutil, time
sys.path.insert(0, '/verif')
from h2vc import spec, prove, deps_model, cli, hdrmodel
cli.load_contracts()
pat = sys.argv[1] if len(sys.argv) > 1 else ''
known = cli.load_known_findings()
targets = [qn for qn in spec.REGISTRY if pat in qn]
t0 = time.time()
reports, crashes = cli.run_all(targets, 'quick', 0)
for qn, err in crashes: print('CRASH', qn, err)
agg = {}
for qn, rep in reports.items():
    res = {}
    for ob in rep.obligations: res[ob.result] = res.get(ob.result, 0) + 1
    print('%-58s paths=%d aborted=%d bounded_out=%d obs=%s canary=%s vacuous=%s cpu=%.1fs' % (qn, rep.paths, rep.aborted, rep.bounded_out, res, rep.canary, rep.vacuous, rep.wall_s))
    for u in rep.undecided: print('   UNDECIDED', u)
    for ob in rep.obligations:
        if ob.result == 'proved': continue
        covered = [f['id'] for f in known if any(cli.finding_matches(f, p, ob) for p in ob.props)]
        key = (ob.oid, cli.norm_site(ob.site), ob.result, tuple(covered))
        agg.setdefault(key, []).append(ob)
for (oid, site, res, cov), obs in sorted(agg.items()):
    print('%s %s\n    site=%r n=%d props=%s covered_by=%s\n    clause: %s\n    path: %s' % (res.upper(), oid, site, len(obs), obs[0].props, list(cov), obs[0].clause[:200], ' / '.join(obs[0].path[-8:])))
print('wall %.1fs' % (time.time() - t0))
