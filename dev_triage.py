import sys, importlib, json, pkgutil
sys.path.insert(0, '/verif')
from h2vc import spec, prove, deps_model, cli, hdrmodel
cli.load_contracts()
V = prove.Verifier()
pat = sys.argv[1] if len(sys.argv) > 1 else ''
known = cli.load_known_findings()
agg = {}
for qn in list(spec.REGISTRY):
    if pat not in qn: continue
    rep = V.verify(qn)
    for u in rep.undecided: print('UNDECIDED', qn, u)
    for ob in rep.obligations:
        if ob.result == 'proved': continue
        covered = [f['id'] for f in known if any(cli.finding_matches(f, p, ob) for p in ob.props)]
        key = (ob.oid, cli.norm_site(ob.site), ob.result, tuple(covered))
        agg.setdefault(key, []).append(ob)
for (oid, site, res, cov), obs in sorted(agg.items()):
    print('%s %s\n    site=%r n=%d props=%s covered_by=%s\n    clause: %s\n    path: %s' % (res.upper(), oid, site, len(obs), obs[0].props, list(cov), obs[0].clause[:200], ' / '.join(obs[0].path[-8:])))
