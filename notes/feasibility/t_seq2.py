import z3, time, subprocess, tempfile, os
P, D, a, b = z3.Strings('P D a b')
pre = lambda s, k: z3.SubString(s, 0, k)
suf = lambda s, k: z3.SubString(s, k, z3.Length(s) - k)
L, la, lb = z3.Length(P), z3.Length(a), z3.Length(b)
def add_k(P, D, x, k):
    return pre(P, k) != pre(x, k), suf(P, k), D + suf(x, k)
cases = {
 'A: L<=|a|':        (L <= la,                      L,  z3.IntVal(0), L),
 'B: |a|<L<=|a|+|b|': (z3.And(la < L, L <= la+lb),   la, L - la,       L),
 'C: |a|+|b|<L':     (la + lb < L,                  la, lb,           la + lb),
}
inv = z3.Or(L == 0, z3.Length(D) == 0)
def cvc5(solver):
    txt = "(set-logic ALL)\n" + solver.to_smt2()
    f = tempfile.NamedTemporaryFile('w', suffix='.smt2', delete=False); f.write(txt); f.close()
    t = time.time()
    try:
        out = subprocess.run(['cvc5', '--strings-exp', '--tlimit=30000', f.name], capture_output=True, text=True).stdout.strip()
    finally:
        os.unlink(f.name)
    return out, (time.time() - t) * 1000
for cname, (cond, k1, k2, k12) in cases.items():
    bad1, P1, D1 = add_k(P, D, a, k1)
    bad2, P2, D2 = add_k(P1, D1, b, k2)
    bad12, P12, D12 = add_k(P, D, a + b, k12)
    goals = {'err': z3.Or(bad1, bad2) == bad12,
             'pre': z3.Implies(z3.Not(bad12), P2 == P12),
             'dat': z3.Implies(z3.Not(bad12), D2 == D12)}
    for n, g in goals.items():
        s = z3.Solver(); s.set('timeout', 30000); s.add(inv, cond, z3.Not(g)); t = time.time(); r = s.check()
        zr = ('proved' if r == z3.unsat else str(r), (time.time()-t)*1000)
        cr = cvc5(s)
        print('%-20s %-4s z3=%s %.0fms   cvc5=%s %.0fms' % (cname, n, zr[0], zr[1], cr[0], cr[1]))
