(set-logic ALL)
(declare-const x String)
(assert (str.in_re (str.to_lower x) (re.++ re.all (re.range "A" "Z") re.all)))
(check-sat)
