"""Scratch prototype (NOT the framework): AST -> z3 symbolic executor for a
small Python subset, run on the real h2 sources.  Purpose: calibrate DESIGN.md.
"""
import ast, copy, sys, time, textwrap
import z3

SRC = '/repo/src/h2/'  # read-only; probes re-read the real source


class Unsupported(Exception):
    pass


class PyExc:
    """A raised exception along a path."""
    def __init__(self, cls, args=()):
        self.cls, self.args = cls, args

    def __repr__(self):
        return 'raise %s' % self.cls


class Obj:
    def __init__(self, cls, fields):
        self.cls, self.fields = cls, fields

    def __repr__(self):
        return '<%s %s>' % (self.cls, self.fields)


NONE = ('none',)


class State:
    def __init__(self):
        self.pc = []          # path condition
        self.locals = {}
        self.objs = {}        # id -> Obj   (ownership tree, value semantics)
        self.trace = []       # branch decisions (for finding keys)

    def fork(self):
        s = State()
        s.pc = list(self.pc)
        s.locals = dict(self.locals)
        s.objs = {k: Obj(o.cls, dict(o.fields)) for k, o in self.objs.items()}
        s.trace = list(self.trace)
        return s


class Ref:
    def __init__(self, oid):
        self.oid = oid


def feasible(pc, extra=None, timeout=2000):
    s = z3.Solver()
    s.set('timeout', timeout)
    s.add(*pc)
    if extra is not None:
        s.add(extra)
    r = s.check()
    return r != z3.unsat


class Module:
    def __init__(self, path):
        self.src = open(path).read()
        self.tree = ast.parse(self.src)
        self.funcs = {}
        self.consts = {}
        for node in self.tree.body:
            if isinstance(node, ast.FunctionDef):
                self.funcs[node.name] = node
            elif isinstance(node, ast.ClassDef):
                for sub in node.body:
                    if isinstance(sub, ast.FunctionDef):
                        self.funcs[node.name + '.' + sub.name] = sub
            elif isinstance(node, ast.Assign) and len(node.targets) == 1 \
                    and isinstance(node.targets[0], ast.Name):
                try:
                    self.consts[node.targets[0].id] = eval(
                        compile(ast.Expression(node.value), '<c>', 'eval'), {})
                except Exception:
                    pass


class Exec:
    def __init__(self, module, contracts=None, enums=None):
        self.m = module
        self.contracts = contracts or {}
        self.enums = enums or {}
        self.nfork = 0

    # ---- expressions: return list of (value, state) since calls may fork
    def ev(self, e, st):
        if isinstance(e, ast.Constant):
            v = e.value
            if v is None:
                return NONE
            if isinstance(v, bool):
                return z3.BoolVal(v)
            if isinstance(v, int):
                return z3.IntVal(v)
            return ('const', v)
        if isinstance(e, ast.Name):
            if e.id in st.locals:
                return st.locals[e.id]
            if e.id in self.m.consts:
                v = self.m.consts[e.id]
                return z3.IntVal(v) if isinstance(v, int) else ('const', v)
            raise Unsupported('name ' + e.id)
        if isinstance(e, ast.Attribute):
            # Enum member?
            if isinstance(e.value, ast.Name) and e.value.id in self.enums:
                return z3.IntVal(self.enums[e.value.id][e.attr])
            base = self.ev(e.value, st)
            if isinstance(base, Ref):
                return st.objs[base.oid].fields[e.attr]
            raise Unsupported('attr on ' + repr(base))
        if isinstance(e, ast.BinOp):
            a, b = self.ev(e.left, st), self.ev(e.right, st)
            if isinstance(e.op, ast.Mod) and isinstance(a, tuple):
                return ('const', '<fmt>')    # string formatting: opaque
            if isinstance(e.op, ast.Add):
                return a + b
            if isinstance(e.op, ast.Sub):
                return a - b
            if isinstance(e.op, ast.Mult):
                return a * b
            if isinstance(e.op, ast.Pow):
                return z3.IntVal(z3.simplify(a).as_long() ** z3.simplify(b).as_long())
            if isinstance(e.op, ast.FloorDiv):
                # Python floor division == SMT-LIB div only for positive
                # divisor; require a literal positive divisor here.
                bb = z3.simplify(b)
                if not (z3.is_int_value(bb) and bb.as_long() > 0):
                    raise Unsupported('// by non-literal')
                return a / b
            raise Unsupported('binop')
        if isinstance(e, ast.UnaryOp):
            v = self.ev(e.operand, st)
            if isinstance(e.op, ast.Not):
                return z3.Not(self.truth(v))
            if isinstance(e.op, ast.USub):
                return -v
        if isinstance(e, ast.BoolOp):
            vs = [self.truth(self.ev(x, st)) for x in e.values]
            return z3.And(*vs) if isinstance(e.op, ast.And) else z3.Or(*vs)
        if isinstance(e, ast.Compare):
            left = self.ev(e.left, st)
            out = []
            for op, rhs in zip(e.ops, e.comparators):
                if isinstance(op, (ast.In, ast.NotIn)):
                    assert isinstance(rhs, ast.Tuple)
                    alts = [self.ev(x, st) for x in rhs.elts]
                    c = z3.Or(*[left == a for a in alts])
                    out.append(c if isinstance(op, ast.In) else z3.Not(c))
                    continue
                right = self.ev(rhs, st)
                if isinstance(op, (ast.Is, ast.IsNot)):
                    c = z3.BoolVal((left is NONE) == (right is NONE))
                    out.append(c if isinstance(op, ast.Is) else z3.Not(c))
                else:
                    f = {ast.Eq: lambda a, b: a == b, ast.NotEq: lambda a, b: a != b,
                         ast.Lt: lambda a, b: a < b, ast.LtE: lambda a, b: a <= b,
                         ast.Gt: lambda a, b: a > b, ast.GtE: lambda a, b: a >= b}[type(op)]
                    out.append(f(left, right))
                left = right
            return z3.And(*out) if len(out) > 1 else out[0]
        if isinstance(e, ast.Call):
            if isinstance(e.func, ast.Name) and e.func.id in ('min', 'max'):
                a, b = [self.ev(x, st) for x in e.args]
                return z3.If(a <= b, a, b) if e.func.id == 'min' else z3.If(a >= b, a, b)
            if isinstance(e.func, ast.Name) and e.func.id[0].isupper():
                return ('exc', e.func.id)
            raise Unsupported('call in expr ' + ast.dump(e.func))
        raise Unsupported(type(e).__name__)

    def truth(self, v):
        if v is NONE:
            return z3.BoolVal(False)
        if z3.is_bool(v):
            return v
        if z3.is_int(v):
            return v != 0
        raise Unsupported('truth of %r' % (v,))

    # ---- statements: yields outcomes (kind, value, state)
    def block(self, stmts, st):
        if not stmts:
            yield ('fall', None, st)
            return
        head, rest = stmts[0], stmts[1:]
        for kind, val, s2 in self.stmt(head, st):
            if kind == 'fall':
                yield from self.block(rest, s2)
            else:
                yield (kind, val, s2)

    def assign(self, target, v, st):
        if isinstance(target, ast.Name):
            st.locals[target.id] = v
        elif isinstance(target, ast.Attribute):
            base = self.ev(target.value, st)
            st.objs[base.oid].fields[target.attr] = v
        else:
            raise Unsupported('assign target')

    def stmt(self, n, st):
        if isinstance(n, ast.Expr):
            if isinstance(n.value, ast.Constant):      # docstring
                yield ('fall', None, st)
                return
            for kind, val, s2 in self.call(n.value, st):
                yield ('fall', None, s2) if kind == 'return' else (kind, val, s2)
            return
        if isinstance(n, ast.Assign):
            if isinstance(n.value, ast.Call) and self.is_method_call(n.value):
                for kind, val, s2 in self.call(n.value, st):
                    if kind == 'return':
                        self.assign(n.targets[0], val, s2)
                        yield ('fall', None, s2)
                    else:
                        yield (kind, val, s2)
                return
            self.assign(n.targets[0], self.ev(n.value, st), st)
            yield ('fall', None, st)
            return
        if isinstance(n, ast.AugAssign):
            cur = self.ev(n.target, st)
            rhs = self.ev(n.value, st)
            v = cur + rhs if isinstance(n.op, ast.Add) else cur - rhs
            self.assign(n.target, v, st)
            yield ('fall', None, st)
            return
        if isinstance(n, ast.If):
            c = self.truth(self.ev(n.test, st))
            for branch, cond, tag in ((n.body, c, 'T'), (n.orelse, z3.Not(c), 'F')):
                if feasible(st.pc, cond):
                    s2 = st.fork()
                    self.nfork += 1
                    s2.pc.append(cond)
                    s2.trace.append('%d%s' % (n.lineno, tag))
                    yield from self.block(branch, s2)
            return
        if isinstance(n, ast.Return):
            if isinstance(n.value, ast.Call) and self.is_method_call(n.value):
                yield from self.call(n.value, st)
                return
            yield ('return', NONE if n.value is None else self.ev(n.value, st), st)
            return
        if isinstance(n, ast.Raise):
            v = self.ev(n.exc, st)
            yield ('raise', PyExc(v[1]), st)
            return
        if isinstance(n, ast.Assert):
            c = self.truth(self.ev(n.test, st))
            if feasible(st.pc, z3.Not(c)):
                s2 = st.fork()
                s2.pc.append(z3.Not(c))
                yield ('raise', PyExc('AssertionError'), s2)
            st.pc.append(c)
            yield ('fall', None, st)
            return
        if isinstance(n, ast.Pass):
            yield ('fall', None, st)
            return
        raise Unsupported(type(n).__name__)

    def is_method_call(self, c):
        return (isinstance(c.func, ast.Attribute) and isinstance(c.func.value, ast.Name)
                and c.func.value.id == 'self') or \
               (isinstance(c.func, ast.Name) and c.func.id in self.m.funcs)

    def call(self, c, st):
        """Inline a call to a method of self / module function."""
        if isinstance(c.func, ast.Attribute):
            recv = self.ev(c.func.value, st)
            cls = st.objs[recv.oid].cls
            fn = self.m.funcs[cls + '.' + c.func.attr]
            args = [recv] + [self.ev(a, st) for a in c.args]
        else:
            fn = self.m.funcs[c.func.id]
            args = [self.ev(a, st) for a in c.args]
        saved = st.locals
        st = st.fork()
        st.locals = {a.arg: v for a, v in zip(fn.args.args, args)}
        for kind, val, s2 in self.block(fn.body, st):
            s2.locals = dict(saved)
            if kind == 'fall':
                kind, val = 'return', NONE
            yield (kind, val, s2)

    def run(self, qualname, st, args):
        fn = self.m.funcs[qualname]
        st.locals = {a.arg: v for a, v in zip(fn.args.args, args)}
        for kind, val, s2 in self.block(fn.body, st):
            if kind == 'fall':
                kind, val = 'return', NONE
            yield (kind, val, s2)


def prove(name, pc, goal, timeout=10000):
    s = z3.Solver()
    s.set('timeout', timeout)
    s.add(*pc)
    s.add(z3.Not(goal))
    t = time.time()
    r = s.check()
    dt = time.time() - t
    if r == z3.unsat:
        return ('proved', dt, None)
    if r == z3.sat:
        return ('FAILED', dt, s.model())
    return ('unknown', dt, None)
