import z3, time, sys
from symex import *

m = Module(SRC + 'windows.py')
m.consts['LARGEST_FLOW_CONTROL_WINDOW'] = 2**31 - 1
ex = Exec(m)

def fresh_wm(st, tag=''):
    cur, mx, bp = z3.Ints('cur%s max%s bp%s' % (tag, tag, tag))
    st.objs[1] = Obj('WindowManager', {'current_window_size': cur, 'max_window_size': mx, '_bytes_processed': bp})
    return Ref(1), cur, mx, bp

def inv(cur, mx, bp, outst):
    return z3.And(0 <= mx, mx <= 2**31 - 1, bp >= 0, outst >= 0, cur + bp + outst == mx)

results = []
# ---- process_bytes
st = State()
wm, cur, mx, bp = fresh_wm(st)
outst, size = z3.Ints('outstanding size')
st.pc += [inv(cur, mx, bp, outst), 0 <= size, size <= outst]
t0 = time.time()
npaths = 0
for kind, val, s2 in ex.run('WindowManager.process_bytes', st, [wm, size]):
    npaths += 1
    f = s2.objs[1].fields
    cur2, mx2, bp2 = f['current_window_size'], f['max_window_size'], f['_bytes_processed']
    outst2 = outst - size
    assert kind == 'return', kind
    inc = z3.IntVal(0) if val is NONE else val
    obl = {
      'inv_preserved': inv(cur2, mx2, bp2, outst2),
      'no_overcredit_bytes': z3.And(inc >= 0, inc <= bp + size),
      'no_overcredit_window': z3.And(cur2 <= mx2, cur2 <= 2**31 - 1),
      'window_is_cur_plus_inc': cur2 == cur + inc,
      'no_deadlock': z3.Implies(z3.And(outst2 == 0, mx2 > 0), cur2 > 0),
    }
    for k, g in obl.items():
        r = prove(k, s2.pc, g)
        results.append(('process_bytes', '/'.join(s2.trace), k, r[0], round(r[1]*1000, 1), r[2]))
print('paths', npaths, 'forks', ex.nfork, 'wall %.2fs' % (time.time() - t0))
for r in results:
    print(r[:5], '' if r[5] is None else r[5])

# ---- window_consumed
results = []
st = State(); wm, cur, mx, bp = fresh_wm(st)
st.pc += [inv(cur, mx, bp, outst), 0 <= size]
for kind, val, s2 in ex.run('WindowManager.window_consumed', st, [wm, size]):
    f = s2.objs[1].fields
    if kind == 'return':
        g = z3.And(inv(f['current_window_size'], f['max_window_size'], f['_bytes_processed'], outst + size), size <= cur)
    else:
        g = z3.And(z3.BoolVal(val.cls == 'FlowControlError'), size > cur)
    print('window_consumed', kind, val, prove('x', s2.pc, g)[:2])
