import ast, time
t=time.time()
def table(path, name):
    tree = ast.parse(open(path).read())
    for node in ast.walk(tree):
        if isinstance(node, ast.Assign) and any(isinstance(x, ast.Name) and x.id == name for x in node.targets) and isinstance(node.value, ast.Dict):
            out = {}
            for k, v in zip(node.value.keys, node.value.values):
                ks = tuple(e.attr for e in k.elts)
                f, tgt = v.elts
                out[ks] = (None if isinstance(f, ast.Constant) else f.attr, tgt.attr)
            return out
s = table('/repo/src/h2/stream.py', '_transitions'); c = table('/repo/src/h2/connection.py', '_transitions')
print(len(s), 'stream entries;', len(c), 'connection entries; %.0f ms' % ((time.time()-t)*1000))
print(s[('HALF_CLOSED_REMOTE','RECV_DATA')], c[('CLOSED','SEND_GOAWAY')])
closed_ok = sorted(i for (st,i) in c if st=='CLOSED'); print('accepted in CLOSED:', closed_ok)
