# Feasibility probe: struct-of-arrays model of `streams`, quantified class
# invariant, modular call via contract, exceptional paths.  Hand-built VC
# mirroring what the generator would emit for H2Connection.send_data.
import z3, time
I = z3.IntSort(); B = z3.BoolSort()
dom  = z3.Array('streams.dom', I, B)
swin = z3.Array('streams.outbound_flow_control_window', I, I)
sst  = z3.Array('streams.state_machine.state', I, I)
smax = z3.Array('streams.max_outbound_frame_size', I, I)
cwin, cmax, cstate = z3.Ints('outbound_flow_control_window max_outbound_frame_size conn_state')
sid, dlen, pad = z3.Ints('stream_id len_data pad_length')
pad_none = z3.Bool('pad_is_none')
k = z3.Int('k')
INV = z3.And(
    z3.ForAll([k], z3.Implies(dom[k], smax[k] == cmax)),
    cmax >= 16384, cmax <= 2**24 - 1, dlen >= 0)
# path: pad given & in range, stream exists, checks pass, conn FSM ok, stream FSM ok (contracts)
fs = dlen + z3.If(pad_none, 0, pad + 1)
lfw = z3.If(cwin <= swin[sid], cwin, swin[sid])
path = [INV, z3.Or(pad_none, z3.And(pad >= 0, pad <= 255)), dom[sid],
        z3.Not(fs > lfw), z3.Not(fs > cmax),
        z3.Or(cstate == 1, cstate == 2),           # conn FSM contract: SEND_DATA accepted
        z3.Or(sst[sid] == 3, sst[sid] == 4)]       # stream FSM contract: SEND_DATA accepted
swin2 = z3.Store(swin, sid, swin[sid] - fs)
cwin2 = cwin - fs
goals = {
  'assert stream window >= 0': swin2[sid] >= 0,
  'assert conn window >= 0': cwin2 >= 0,
  'frame body_len <= max_outbound (assert in _prepare_for_sending)': fs <= cmax,
  'C03 fcl<=stream window': fs <= swin[sid],
  'C03 fcl<=conn window': fs <= cwin,
  'frame: other streams untouched': z3.ForAll([k], z3.Implies(k != sid, swin2[k] == swin[k])),
}
for n, g in goals.items():
    s = z3.Solver(); s.add(*path); s.add(z3.Not(g)); t=time.time(); r = s.check()
    print('%-70s %s %.1fms' % (n, 'proved' if r == z3.unsat else r, (time.time()-t)*1000))
# mutation: padding forgotten in check (frame_size = len(data)) -> counterexample
fs_mut = dlen
path_mut = [p for p in path]
path_mut[3] = z3.Not(fs_mut > lfw); path_mut[4] = z3.Not(fs_mut > cmax)
s = z3.Solver(); s.add(*path_mut); s.add(z3.Not(fs <= swin[sid])); print('mutant:', s.check(), [ (d, s.model()[d]) for d in (dlen, pad, cwin) ], 'swin[sid]=', s.model().eval(swin[sid]))
