(set-logic ALL)
; z3-friendly: lower as uninterpreted y with pointwise axiom instantiated at i
(declare-const x String) (declare-const y String) (declare-const i Int)
(assert (= (str.len x) (str.len y)))
(define-fun lowc ((c Int)) Int (ite (and (<= 65 c) (<= c 90)) (+ c 32) c))
(assert (and (<= 0 i) (< i (str.len y))))
(assert (= (str.to_code (str.at y i)) (lowc (str.to_code (str.at x i)))))
(assert (and (<= 65 (str.to_code (str.at y i))) (<= (str.to_code (str.at y i)) 90)))
(check-sat)
