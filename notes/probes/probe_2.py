import h2.connection, h2.config, h2.events, h2.exceptions, h2.settings, h2.errors
from h2.settings import SettingCodes as SC
import hyperframe.frame as hf

def pair(**ckw):
    c = h2.connection.H2Connection(h2.config.H2Configuration(client_side=True, **ckw))
    s = h2.connection.H2Connection(h2.config.H2Configuration(client_side=False))
    c.initiate_connection(); s.initiate_connection()
    s.receive_data(c.data_to_send()); c.receive_data(s.data_to_send())
    s.receive_data(c.data_to_send()); c.receive_data(s.data_to_send())
    return c, s
REQ=[(':method','GET'),(':scheme','https'),(':authority','a'),(':path','/')]
def opened():
    c,s = pair()
    c.send_headers(1, REQ); s.receive_data(c.data_to_send())
    return c,s
def t(name, f):
    try:
        r = f(); print(name, '->', r)
    except Exception as e:
        print(name, 'RAISED', type(e).__name__, e, '| mro', [b.__name__ for b in type(e).__mro__[1:4]])

c,s = opened(); t('end_stream unknown', lambda: c.end_stream(5)); print(' state', c.state_machine.state)
c,s = opened(); t('incr window unknown', lambda: c.increment_flow_control_window(5, stream_id=7))
c,s = opened(); t('prioritize 0', lambda: c.prioritize(0))
c,s = opened(); t('prioritize depends 2**32', lambda: c.prioritize(1, depends_on=2**32)); print(' out', c.data_to_send())
c,s = opened(); t('prioritize depends 2**31', lambda: c.prioritize(1, depends_on=2**31)); print(' peer', s.receive_data(c.data_to_send()))
c,s = opened(); t('reset unknown', lambda: c.reset_stream(9))
c,s = opened(); t('reset err 2**32', lambda: c.reset_stream(1, 2**32)); print(' out', c.data_to_send())
c,s = opened(); t('send_data stream0', lambda: c.send_data(0, b'x'))
c,s = opened(); t('send_headers stream0', lambda: c.send_headers(0, REQ)); print(' streams', list(c.streams))
c,s = opened(); t('send_headers -1', lambda: c.send_headers(-1, REQ)); print(' streams', list(c.streams), c.highest_outbound_stream_id)
c,s = opened(); t('send_headers 2**31+1', lambda: c.send_headers(2**31+1, REQ)); print(' streams', list(c.streams), c.data_to_send()[:12])
# server priority -> hpack desync
c,s = opened()
t('server prio', lambda: s.send_headers(1, [(':status','200'),('x-a','b')], priority_weight=5))
print(' server out after fail:', s.data_to_send(), s.streams[1].state_machine.state)
# ack after close
c,s = opened()
s.send_headers(1,[(':status','200')]); 
for i in range(3): s.send_data(1, b'x'*16000)
c.receive_data(s.data_to_send())
c.close_connection(); c.data_to_send()
t('ack after close', lambda: c.acknowledge_received_data(48000, 1))
print(' out after close:', c.data_to_send())
# update_settings partial
c,s = opened()
t('update_settings partial', lambda: c.update_settings({SC.MAX_CONCURRENT_STREAMS: 5, SC.ENABLE_PUSH: 7}))
print(' pending', c.local_settings._settings[SC.MAX_CONCURRENT_STREAMS], 'out', c.data_to_send())
# two settings, one ack
c,s = opened()
c.update_settings({SC.MAX_CONCURRENT_STREAMS: 5}); c.update_settings({SC.INITIAL_WINDOW_SIZE: 100})
d = c.data_to_send()
f = hf.SettingsFrame(0); f.flags.add('ACK')
ev = c.receive_data(f.serialize())
print('one ack applied:', ev[0].changed_settings)
# trailers without end_stream -> desync
c,s = opened()
t('trailers no ES', lambda: c.send_headers(1, [('x-trailer-new','v1')]))
print(' out', c.data_to_send(), c.streams[1].state_machine.state if 1 in c.streams else None)
c,s = opened()
t('te gzip', lambda: c.send_headers(3, REQ+[('x-new-header','abcdefgh'),('te','gzip')]))
print(' out', c.data_to_send(), list(c.streams), [ (k, v.state_machine.state) for k,v in c.streams.items()])
t(' next', lambda: c.send_headers(5, REQ+[('x-new-header','abcdefgh')]))
t(' peer', lambda: s.receive_data(c.data_to_send()))
# incr overflow mutates
c,s = opened()
t('incr overflow', lambda: c.increment_flow_control_window(2**31-1))
print(' window', c.inbound_flow_control_window, c.data_to_send())
