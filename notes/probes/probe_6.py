import h2.connection, h2.config
import hyperframe.frame as hf
from hpack import Encoder
def pair():
    c = h2.connection.H2Connection(h2.config.H2Configuration(client_side=True))
    s = h2.connection.H2Connection(h2.config.H2Configuration(client_side=False))
    c.initiate_connection(); s.initiate_connection()
    for _ in range(3):
        s.receive_data(c.data_to_send()); c.receive_data(s.data_to_send())
    return c, s
REQ=[(':method','GET'),(':scheme','https'),(':authority','a'),(':path','/')]
c,s = pair()
print('max_outbound', c.max_outbound_frame_size)
import os
big = REQ + [('x-%d' % i, os.urandom(40).hex()) for i in range(400)]
try:
    c.send_headers(1, big, priority_weight=10)
    print('ok')
except Exception as e:
    print('RAISED', type(e).__name__, e)
out = c.data_to_send(); print('bytes appended despite raise:', len(out))
if out:
    f, l = hf.Frame.parse_frame_header(memoryview(out[:9])); print(' first frame', type(f).__name__, 'len', l)
# HEAD with trailers
c,s = pair(); enc = Encoder()
c.send_headers(1, [(':method','HEAD'),(':scheme','https'),(':authority','a'),(':path','/')])
c.send_headers(1, [('x-t','1')], end_stream=True); c.data_to_send()
f = hf.HeadersFrame(1); f.data = enc.encode([(':status','200'),('content-length','10')]); f.flags.add('END_HEADERS')
d = hf.DataFrame(1); d.flags.add('END_STREAM')
try: print('HEAD+trailers resp ->', c.receive_data(f.serialize()+d.serialize()))
except Exception as e: print('HEAD+trailers resp RAISED', type(e).__name__, e)
