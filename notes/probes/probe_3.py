import h2.connection, h2.config, h2.events, h2.exceptions, h2.settings, h2.errors
from h2.settings import SettingCodes as SC
import hyperframe.frame as hf
from hpack import Encoder
def pair(**ckw):
    c = h2.connection.H2Connection(h2.config.H2Configuration(client_side=True, **ckw))
    s = h2.connection.H2Connection(h2.config.H2Configuration(client_side=False))
    c.initiate_connection(); s.initiate_connection()
    s.receive_data(c.data_to_send()); c.receive_data(s.data_to_send())
    s.receive_data(c.data_to_send()); c.receive_data(s.data_to_send())
    return c, s
REQ=[(':method','GET'),(':scheme','https'),(':authority','a'),(':path','/')]
def t(name, f):
    try:
        r = f(); print(name, '->', r)
    except Exception as e:
        print(name, 'RAISED', type(e).__name__, e, '| code', getattr(e,'error_code',None))
def goaway(conn):
    d = conn.data_to_send(); out=[]
    while d:
        f, l = hf.Frame.parse_frame_header(memoryview(d[:9])); f.parse_body(memoryview(d[9:9+l])); d = d[9+l:]; out.append(f)
    return out
enc = Encoder()
def H(sid, hdrs, flags=('END_HEADERS',)):
    f = hf.HeadersFrame(sid); f.data = enc.encode(hdrs); [f.flags.add(x) for x in flags]; return f.serialize()
# C07: client gets HEADERS on never-promised even stream
c,s = pair(); enc = Encoder()
t('client recv HEADERS on 2', lambda: c.receive_data(H(2, REQ)))
# C17: empty header name to server
c,s = pair(); enc = Encoder()
t('empty name', lambda: s.receive_data(H(1, REQ+[('', 'x')])))
# C17: non-utf8 with header_encoding
s2 = h2.connection.H2Connection(h2.config.H2Configuration(client_side=False, header_encoding='utf-8')); s2.initiate_connection()
s2.receive_data(b'PRI * HTTP/2.0\r\n\r\nSM\r\n\r\n' + hf.SettingsFrame(0).serialize()); enc = Encoder()
t('non-utf8', lambda: s2.receive_data(H(1, REQ+[(b'x', b'\xff\xfe')])))
# C18: bad hpack
c,s = pair()
f = hf.HeadersFrame(1); f.data = b'\xff\xff\xff\xff\xff'; f.flags.add('END_HEADERS')
t('bad hpack', lambda: s.receive_data(f.serialize())); print(' goaway', [ (type(x).__name__, getattr(x,'error_code',None)) for x in goaway(s)])
# C18: settings ack with payload
c,s = pair()
raw = b'\x00\x00\x06\x04\x01\x00\x00\x00\x00' + b'\x00\x03\x00\x00\x00\x05'
t('ack w payload', lambda: s.receive_data(raw)); print(' goaway', [ (type(x).__name__, getattr(x,'error_code',None)) for x in goaway(s)])
# C16: 304 with content-length, ended by empty DATA
c,s = pair(); enc = Encoder()
c.send_headers(1, REQ, end_stream=True); c.data_to_send()
d = hf.DataFrame(1); d.flags.add('END_STREAM')
t('304 cl empty data', lambda: c.receive_data(H(1, [(':status','304'),('content-length','10')]) + d.serialize()))
# C16: cl=5 END_STREAM on HEADERS
c,s = pair(); enc = Encoder()
c.send_headers(1, REQ, end_stream=True); c.data_to_send()
t('cl5 ES on headers', lambda: c.receive_data(H(1, [(':status','200'),('content-length','5')], ('END_HEADERS','END_STREAM'))))
# C21: limit snapshot
c,s = pair()
c.update_settings({SC.MAX_FRAME_SIZE: 32768}); c.data_to_send()
ack = hf.SettingsFrame(0); ack.flags.add('ACK')
enc = Encoder(); c.send_headers(1, REQ, end_stream=True); c.data_to_send()
big = hf.DataFrame(1); big.data = b'x'*20000
stream = ack.serialize() + H(1, [(':status','200')]) + big.serialize()
import copy
c1 = copy.deepcopy(c); c2 = copy.deepcopy(c)
t('one shot', lambda: [type(e).__name__ for e in c1.receive_data(stream)])
def split():
    a = c2.receive_data(stream[:9]); b = c2.receive_data(stream[9:]); return [type(e).__name__ for e in a+b]
t('split', split)
# C20: refused push then HEADERS on promised stream
c,s = pair(); enc = Encoder()
c.send_headers(1, REQ); c.reset_stream(1); c.data_to_send()
pp = hf.PushPromiseFrame(1); pp.promised_stream_id = 2; pp.data = enc.encode(REQ); pp.flags.add('END_HEADERS')
t('pp on reset', lambda: c.receive_data(pp.serialize())); print(' out', [(type(x).__name__, x.stream_id) for x in goaway(c)])
t('headers on refused promised', lambda: c.receive_data(H(2, [(':status','200')])))
