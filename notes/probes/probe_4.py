import h2.connection, h2.config, h2.settings
from h2.settings import SettingCodes as SC
import hyperframe.frame as hf
def pair(cs=None):
    c = h2.connection.H2Connection(h2.config.H2Configuration(client_side=True))
    s = h2.connection.H2Connection(h2.config.H2Configuration(client_side=False))
    c.initiate_connection(); s.initiate_connection()
    if cs: c.update_settings(cs)
    for _ in range(3):
        s.receive_data(c.data_to_send()); c.receive_data(s.data_to_send())
    return c, s
REQ=[(':method','GET'),(':scheme','https'),(':authority','a'),(':path','/')]
def t(name, f):
    try: print(name, '->', f())
    except Exception as e: print(name, 'RAISED', type(e).__name__, e)
# C22: failing push leaves state
c,s = pair(); c.send_headers(1, REQ); s.receive_data(c.data_to_send())
t('push bad headers', lambda: s.push_stream(1, 2, [(':method','GET')]))
print(' streams', {k:v.state_machine.state.name for k,v in s.streams.items()}, 'hi_out', s.highest_outbound_stream_id, 'next', s.get_next_available_stream_id(), 'out', s.data_to_send())
# C08: server opens stream with HEADERS on even id
c,s = pair(); c.send_headers(1, REQ); s.receive_data(c.data_to_send())
t('server send_headers(2)', lambda: s.send_headers(2, REQ)); print(' out', s.data_to_send()[:9].hex(), {k:v.state_machine.state.name for k,v in s.streams.items()})
# C08/C24: client in IDLE advertises altsvc
c = h2.connection.H2Connection(h2.config.H2Configuration(client_side=True)); c.initiate_connection(); c.data_to_send()
t('client altsvc idle', lambda: c.advertise_alternative_service(b'h2=":443"', origin=b'example.com')); print(' out', c.data_to_send().hex(), c.state_machine.state)
# C10: reserved->half closed not limited (server side outbound, remote max=1)
c,s = pair({SC.MAX_CONCURRENT_STREAMS: 1})
c.send_headers(1, REQ); s.receive_data(c.data_to_send())
s.push_stream(1, 2, REQ); s.push_stream(1, 4, REQ)
t('resp on 2', lambda: s.send_headers(2, [(':status','200')])); t('resp on 4', lambda: s.send_headers(4, [(':status','200')]))
print(' server open_outbound', s.open_outbound_streams, 'remote max', s.remote_settings.max_concurrent_streams)
t(' client recv', lambda: [type(e).__name__ for e in c.receive_data(s.data_to_send())]); print(' client open_inbound', c.open_inbound_streams, 'local max', c.local_settings.max_concurrent_streams)
