# A user call that raises still closes the stream FSM (no RST_STREAM is sent):
# C10 (count vs RFC model), and the peer's legitimate response then kills the connection.
import h2.connection, h2.config
def pair():
    c = h2.connection.H2Connection(h2.config.H2Configuration(client_side=True))
    s = h2.connection.H2Connection(h2.config.H2Configuration(client_side=False))
    c.initiate_connection(); s.initiate_connection()
    for _ in range(3):
        s.receive_data(c.data_to_send()); c.receive_data(s.data_to_send())
    return c, s
REQ=[(':method','GET'),(':scheme','https'),(':authority','a'),(':path','/')]
c, s = pair()
c.send_headers(1, REQ, end_stream=True)          # RFC: half-closed (local), counts as open
s.receive_data(c.data_to_send())
print('open_outbound before misuse:', c.open_outbound_streams)
try:
    c.send_data(1, b'x')
except Exception as e:
    print('send_data RAISED', type(e).__name__, e)
print('bytes emitted by failing call:', c.data_to_send())
print('open_outbound after misuse :', c.open_outbound_streams, '(RFC model: still 1, nothing was sent)')
s.send_headers(1, [(':status', '200')], end_stream=True)
try:
    print('client receives response ->', c.receive_data(s.data_to_send()))
except Exception as e:
    print('client receives response RAISED', type(e).__name__, e, '| connection', c.state_machine.state)
