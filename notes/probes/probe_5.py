import h2.connection, h2.config, h2.settings
from h2.settings import SettingCodes as SC
import hyperframe.frame as hf
from hpack import Encoder
REQ=[(':method','GET'),(':scheme','https'),(':authority','a'),(':path','/')]
s = h2.connection.H2Connection(h2.config.H2Configuration(client_side=False))
s.initiate_connection(); s.update_settings({SC.MAX_CONCURRENT_STREAMS: 1}); s.data_to_send()
ack = hf.SettingsFrame(0); ack.flags.add('ACK')
s.receive_data(b'PRI * HTTP/2.0\r\n\r\nSM\r\n\r\n' + hf.SettingsFrame(0).serialize() + ack.serialize() + ack.serialize())
print('local max', s.local_settings.max_concurrent_streams)
enc = Encoder()
def H(sid, hdrs, es=False):
    f = hf.HeadersFrame(sid); f.data = enc.encode(hdrs); f.flags.add('END_HEADERS')
    if es: f.flags.add('END_STREAM')
    return f.serialize()
s.receive_data(H(1, REQ)); s.reset_stream(1); s.data_to_send()
s.receive_data(H(3, REQ))      # stream 1 cleaned up into _closed_streams, 3 open (limit reached)
print('streams', list(s.streams), 'closed', dict(s._closed_streams))
try:
    print('racing trailers on 1 ->', s.receive_data(H(1, [('x-late','abcdefghij')], es=True)))
except Exception as e:
    print('racing trailers on 1 RAISED', type(e).__name__, e, 'state', s.state_machine.state)
