import h2.connection, h2.config, h2.exceptions, h2.settings
from hyperframe.frame import HeadersFrame, SettingsFrame
from hpack import Encoder
s = h2.connection.H2Connection(h2.config.H2Configuration(client_side=False))
s.local_settings = h2.settings.Settings(client=False, initial_values={h2.settings.SettingCodes.MAX_CONCURRENT_STREAMS: 1})
s.initiate_connection()
s.receive_data(b'PRI * HTTP/2.0\r\n\r\nSM\r\n\r\n' + SettingsFrame(0).serialize() + SettingsFrame(0, flags=['ACK']).serialize())
e = Encoder()
def hdr(sid, h, es=False):
    f = HeadersFrame(sid); f.data = e.encode(h); f.flags.add('END_HEADERS')
    if es: f.flags.add('END_STREAM')
    return f.serialize()
REQ=[(':method','POST'),(':path','/'),(':scheme','https'),(':authority','x')]
s.receive_data(hdr(1, REQ)); s.reset_stream(1); s.receive_data(hdr(3, REQ)); s.data_to_send()
try:
    ev = s.receive_data(hdr(1, [('x-trailer','1')], es=True)); print('ok: late trailers on reset stream 1 ->', ev, s.data_to_send().hex())
except h2.exceptions.ProtocolError as ex: print('CONNECTION ERROR', type(ex).__name__, ex)
import h2.connection, h2.config, h2.exceptions, h2.settings
from hyperframe.frame import HeadersFrame, SettingsFrame
from hpack import Encoder
c = h2.connection.H2Connection(h2.config.H2Configuration(client_side=True))
c.local_settings = h2.settings.Settings(client=True, initial_values={h2.settings.SettingCodes.MAX_CONCURRENT_STREAMS: 0})
c.initiate_connection(); c.receive_data(SettingsFrame(0).serialize() + SettingsFrame(0, flags=['ACK']).serialize())
REQ=[(':method','GET'),(':path','/'),(':scheme','https'),(':authority','x')]
c.send_headers(1, REQ, end_stream=True); c.reset_stream(1); c.send_headers(3, REQ, end_stream=True); c.data_to_send()
f = HeadersFrame(1); f.data = Encoder().encode([(':status','200')]); f.flags.add('END_HEADERS')
try:
    ev = c.receive_data(f.serialize()); print('ok: late response on reset stream 1 ->', ev, c.data_to_send().hex())
except h2.exceptions.ProtocolError as ex: print('CONNECTION ERROR', type(ex).__name__, ex)
