import h2.connection, h2.config, h2.settings, struct
c = h2.connection.H2Connection(h2.config.H2Configuration(client_side=True)); c.initiate_connection(); c.data_to_send()
S=h2.settings.SettingCodes
try: c.update_settings({S.MAX_CONCURRENT_STREAMS: 2**40})
except struct.error as e: print('struct.error', e)
print('pending', {int(k): list(v) for k,v in c.local_settings._settings.items() if len(v)>1}, 'out', c.data_to_send())
