import h2.connection, h2.config, h2.events, h2.exceptions
from hyperframe.frame import HeadersFrame, SettingsFrame
from hpack import Encoder
c = h2.connection.H2Connection(h2.config.H2Configuration(client_side=True)); c.initiate_connection(); c.data_to_send()
c.receive_data(SettingsFrame(0).serialize())
try:
    c.send_headers(1, [(':status','100')], end_stream=True)
except h2.exceptions.ProtocolError as e: print('raised', e)
print('streams', {k:v.state_machine.state for k,v in c.streams.items()}, 'out', c.data_to_send())
f = HeadersFrame(1); f.data = Encoder().encode([(':method','GET'),(':path','/'),(':scheme','https'),(':authority','x')]); f.flags.add('END_HEADERS')
try:
    ev = c.receive_data(f.serialize()); print('events', ev)
except h2.exceptions.ProtocolError as e:
    print('ProtocolError', e, e.error_code)
