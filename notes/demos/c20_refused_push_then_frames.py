import h2.connection, h2.config, h2.events, h2.errors
from hyperframe.frame import PushPromiseFrame, HeadersFrame, DataFrame
from hpack import Encoder
REQ=[(':method','GET'),(':scheme','https'),(':authority','x'),(':path','/')]
def run(cleanup):
    c=h2.connection.H2Connection(h2.config.H2Configuration(client_side=True))
    c.initiate_connection(); c.clear_outbound_data_buffer()
    s=h2.connection.H2Connection(h2.config.H2Configuration(client_side=False))
    s.initiate_connection(); c.receive_data(s.data_to_send()); 
    c.send_headers(1, REQ); c.clear_outbound_data_buffer()
    c.reset_stream(1); c.clear_outbound_data_buffer()
    if cleanup:
        c.send_headers(3, REQ, end_stream=True); c.clear_outbound_data_buffer()
    e=Encoder()
    pp=PushPromiseFrame(1); pp.promised_stream_id=2; pp.data=e.encode(REQ); pp.flags.add('END_HEADERS')
    ev=c.receive_data(pp.serialize()); print('PP events',ev, 'out', c.data_to_send()[:13])
    h=HeadersFrame(2); h.data=e.encode([(':status','200')]); h.flags.add('END_HEADERS')
    try:
        ev=c.receive_data(h.serialize()); print('HEADERS on refused push: events',ev)
    except Exception as ex:
        print('HEADERS on refused push raised',type(ex).__name__,ex); return 1
    d=DataFrame(2); d.data=b'abc'; d.flags.add('END_STREAM')
    try:
        ev=c.receive_data(d.serialize()); print('DATA on refused push: events',ev)
    except Exception as ex:
        print('DATA on refused push raised',type(ex).__name__,ex); return 1
    return 0
import sys
r=run(False)|run(True); sys.exit(r)
