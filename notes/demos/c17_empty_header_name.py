import h2.connection, h2.config, h2.exceptions
from hyperframe.frame import HeadersFrame, SettingsFrame
from hpack import Encoder
s = h2.connection.H2Connection(h2.config.H2Configuration(client_side=False)); s.initiate_connection()
s.receive_data(b'PRI * HTTP/2.0\r\n\r\nSM\r\n\r\n' + SettingsFrame(0).serialize())
f = HeadersFrame(1); f.data = Encoder().encode([(b':method',b'GET'),(b':path',b'/'),(b':scheme',b'https'),(b':authority',b'x'),(b'', b'x')]); f.flags.add('END_HEADERS')
try: print(s.receive_data(f.serialize()))
except h2.exceptions.ProtocolError as e: print('ProtocolError', e)
except Exception as e: print('OTHER', type(e).__name__, e)
