import h2.connection, h2.config, h2.events, h2.exceptions
from hyperframe.frame import HeadersFrame, SettingsFrame
from hpack import Encoder
c = h2.connection.H2Connection(h2.config.H2Configuration(client_side=True)); c.initiate_connection(); c.data_to_send()
c.receive_data(SettingsFrame(0).serialize())
c.send_headers(1, [(':method','GET'),(':path','/'),(':scheme','https'),(':authority','x')], end_stream=True)
f = HeadersFrame(2); f.data = Encoder().encode([(':method','GET'),(':path','/'),(':scheme','https'),(':authority','x')]); f.flags.add('END_HEADERS')
try:
    ev = c.receive_data(f.serialize()); print('events', ev)
except h2.exceptions.ProtocolError as e:
    print('ProtocolError', e, e.error_code)
