import h2.connection, h2.config, h2.exceptions
from hyperframe.frame import HeadersFrame, SettingsFrame
from hpack import Encoder
s = h2.connection.H2Connection(h2.config.H2Configuration(client_side=False)); s.initiate_connection()
s.receive_data(b'PRI * HTTP/2.0\r\n\r\nSM\r\n\r\n' + SettingsFrame(0).serialize())
f = HeadersFrame(1); f.data = Encoder().encode([(':method','GET'),(':path','/'),(':scheme','https'),(':authority','x')]); f.flags.add('END_HEADERS')
s.receive_data(f.serialize()); s.data_to_send()
try: s.push_stream(1, 2, [(':method','GET')])
except h2.exceptions.ProtocolError as e: print('raised', e)
print('streams', sorted(s.streams), 'next id', s.get_next_available_stream_id(), 'out', s.data_to_send())
