import h2.connection, h2.config, h2.exceptions
c = h2.connection.H2Connection(h2.config.H2Configuration(client_side=True)); c.initiate_connection(); c.data_to_send()
try:
    c.advertise_alternative_service(b'h2=":443"', origin=b'example.com'); print('accepted; emitted', c.data_to_send(), c.state_machine.state)
except h2.exceptions.ProtocolError as e: print('ProtocolError', e, c.state_machine.state)
