import h2.connection, h2.config, h2.exceptions, sys
from hyperframe.frame import HeadersFrame, SettingsFrame, DataFrame
from hpack import Encoder
REQ=[(':method','GET'),(':path','/'),(':scheme','https'),(':authority','x')]
def client(method='GET', trailers=False):
    c = h2.connection.H2Connection(h2.config.H2Configuration(client_side=True)); c.initiate_connection(); c.data_to_send()
    c.receive_data(SettingsFrame(0).serialize())
    req=[(':method',method)]+REQ[1:]
    if trailers:
        c.send_headers(1, req); c.send_headers(1, [('x-t','1')], end_stream=True)
    else:
        c.send_headers(1, req, end_stream=True)
    return c
def hf(enc, hdrs, es=False):
    f=HeadersFrame(1); f.data=enc.encode(hdrs); f.flags.add('END_HEADERS')
    if es: f.flags.add('END_STREAM')
    return f.serialize()
def df(data, es=True):
    f=DataFrame(1); f.data=data
    if es: f.flags.add('END_STREAM')
    return f.serialize()
def run(name, c, chunks, expect_ok):
    try:
        for ch in chunks: c.receive_data(ch)
        ok=True
    except h2.exceptions.ProtocolError as e:
        ok=False
    print('%-60s %s' % (name, 'ok' if ok==expect_ok else 'WRONG (accepted=%s)'%ok)); return ok==expect_ok
r=[]
e=Encoder(); r.append(run('304 + cl:10 + empty DATA ES -> accept', client(), [hf(e,[(':status','304'),('content-length','10')]), df(b'')], True))
e=Encoder(); r.append(run('304 + cl:10 + ES on HEADERS -> accept', client(), [hf(e,[(':status','304'),('content-length','10')], es=True)], True))
e=Encoder(); r.append(run('204 + DATA payload -> reject', client(), [hf(e,[(':status','204')]), df(b'x')], False))
e=Encoder(); r.append(run('200 + cl:5 + ES on HEADERS -> reject', client(), [hf(e,[(':status','200'),('content-length','5')], es=True)], False))
e=Encoder(); r.append(run('200 + cl:0 + ES on HEADERS -> accept', client(), [hf(e,[(':status','200'),('content-length','0')], es=True)], True))
e=Encoder(); r.append(run('HEAD w/ trailers; 200 + cl:10 + empty DATA -> accept', client('HEAD', True), [hf(e,[(':status','200'),('content-length','10')]), df(b'')], True))
e=Encoder(); r.append(run('200 + cl:3 + DATA abc + trailers ES -> accept', client(), [hf(e,[(':status','200'),('content-length','3')]), df(b'abc', es=False), hf(e,[('x-t','1')], es=True)], True))
e=Encoder(); r.append(run('200 + cl:5 + DATA abc + trailers ES -> reject', client(), [hf(e,[(':status','200'),('content-length','5')]), df(b'abc', es=False), hf(e,[('x-t','1')], es=True)], False))
e=Encoder(); r.append(run('103 then 200 no cl + DATA -> accept', client(), [hf(e,[(':status','103')]), hf(e,[(':status','200')]), df(b'abc')], True))
e=Encoder(); r.append(run('100 cl:7 then 200 no cl + DATA -> accept', client(), [hf(e,[(':status','100'),('content-length','7')]), hf(e,[(':status','200')]), df(b'abc')], True))
sys.exit(0 if all(r) else 1)
