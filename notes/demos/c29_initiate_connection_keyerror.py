import h2.connection, h2.config
c = h2.connection.H2Connection(h2.config.H2Configuration(client_side=True))
c.update_settings({0x10: 1}); c.clear_outbound_data_buffer()
try: c.initiate_connection(); print('ok')
except KeyError as e: print('KeyError', e)
