import h2.connection, h2.config, h2.exceptions, h2.settings
c = h2.connection.H2Connection(h2.config.H2Configuration(client_side=True)); c.initiate_connection(); c.data_to_send()
S=h2.settings.SettingCodes
try: c.update_settings({S.MAX_CONCURRENT_STREAMS: 5, S.ENABLE_PUSH: 7})
except h2.exceptions.InvalidSettingsValueError as e: print('raised', e)
print('pending', {int(k): list(v) for k,v in c.local_settings._settings.items() if len(v)>1}, 'out', c.data_to_send())
