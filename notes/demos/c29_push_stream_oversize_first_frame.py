import h2.connection, h2.config, h2.exceptions
from hyperframe.frame import HeadersFrame, SettingsFrame
from hpack import Encoder
s = h2.connection.H2Connection(h2.config.H2Configuration(client_side=False)); s.initiate_connection()
s.receive_data(b'PRI * HTTP/2.0\r\n\r\nSM\r\n\r\n' + SettingsFrame(0).serialize())
f = HeadersFrame(1); f.data = Encoder().encode([(':method','GET'),(':path','/'),(':scheme','https'),(':authority','x')]); f.flags.add('END_HEADERS')
s.receive_data(f.serialize()); s.data_to_send()
import os, binascii
big = [(':method','GET'),(':path','/'),(':scheme','https'),(':authority','x')] + [('x-h%d' % i, binascii.hexlify(os.urandom(400)).decode()) for i in range(30)]
try: s.push_stream(1, 2, big); print('ok')
except AssertionError as e: print('AssertionError; bytes already buffered:', len(s.data_to_send()))
