import h2.connection, h2.config, sys
from hyperframe.frame import HeadersFrame
from hpack import Encoder
REQ=[(':method','GET'),(':scheme','https'),(':authority','x'),(':path','/')]
def run(cleanup, status):
    c=h2.connection.H2Connection(h2.config.H2Configuration(client_side=True))
    c.initiate_connection(); c.clear_outbound_data_buffer()
    c.send_headers(1, REQ); c.reset_stream(1); c.clear_outbound_data_buffer()
    if cleanup:
        c.send_headers(3, REQ, end_stream=True); c.clear_outbound_data_buffer()
    h=HeadersFrame(1); h.data=Encoder().encode([(':status',status)]); h.flags.add('END_HEADERS')
    try:
        ev=c.receive_data(h.serialize()); print(cleanup,status,'events',ev,'out',c.data_to_send()); return 0 if not ev else 1
    except Exception as ex:
        print(cleanup,status,'raised',type(ex).__name__,ex); return 1
r=0
for cl in (False,True):
    for st in ('200','103'):
        r|=run(cl,st)
sys.exit(r)
