import h2.connection, h2.config, h2.exceptions
from hyperframe.frame import HeadersFrame, SettingsFrame, ContinuationFrame
from hpack import Encoder
s = h2.connection.H2Connection(h2.config.H2Configuration(client_side=False)); s.initiate_connection()
s.receive_data(b'PRI * HTTP/2.0\r\n\r\nSM\r\n\r\n' + SettingsFrame(0).serialize())
e = Encoder()
def req(sid):
    f = HeadersFrame(sid); f.data = e.encode([(':method','GET'),(':path','/'),(':scheme','https'),(':authority','x')]); f.flags.add('END_HEADERS'); return f.serialize()
s.receive_data(req(1)); s.reset_stream(1); s.receive_data(req(3))   # stream 1 reset by us, then cleaned up
s.close_connection(); s.data_to_send()
c = ContinuationFrame(1); c.data = b''; c.flags.add('END_HEADERS')
try:
    ev = s.receive_data(c.serialize()); print('returned', ev, 'emitted after GOAWAY:', s.data_to_send())
except h2.exceptions.ProtocolError as ex: print('ProtocolError', ex)
