import h2.connection, h2.config, h2.exceptions, h2.settings, sys
from hyperframe.frame import HeadersFrame, SettingsFrame, DataFrame
from hpack import Encoder
def run(split):
    s = h2.connection.H2Connection(h2.config.H2Configuration(client_side=False)); s.initiate_connection()
    s.receive_data(b'PRI * HTTP/2.0\r\n\r\nSM\r\n\r\n' + SettingsFrame(0).serialize())
    s.update_settings({h2.settings.SettingCodes.MAX_FRAME_SIZE: 32768}); s.data_to_send()
    h = HeadersFrame(1); h.data = Encoder().encode([(':method','POST'),(':path','/'),(':scheme','https'),(':authority','x')]); h.flags.add('END_HEADERS')
    d = DataFrame(1); d.data = b'x' * 20000
    stream = SettingsFrame(0, flags=['ACK']).serialize() + h.serialize() + d.serialize()
    try:
        if split:
            s.receive_data(stream[:9]); s.receive_data(stream[9:])
        else:
            s.receive_data(stream)
        return 'accepted'
    except h2.exceptions.ProtocolError as e: return type(e).__name__
a, b = run(False), run(True); print('one chunk:', a, '| split after the ACK:', b); sys.exit(0 if a == b else 1)
