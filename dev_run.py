"""dev helper: python3-vt dev_run.py <substring of qualname> [--all] [--par]   (loads every contracts module)"""
import sys, importlib, time, json, pkgutil
sys.path.insert(0, '/verif')
from h2vc import spec, prove, deps_model, cli
cli.load_contracts()
pat = sys.argv[1] if len(sys.argv) > 1 else ''
targets = [qn for qn in spec.REGISTRY if pat in qn]
if '--par' in sys.argv:
    reports, crashes = cli.run_all(targets, 'quick', 0)
    for qn, err in crashes:
        print('CRASH', qn, err)
else:
    V = prove.Verifier()
    reports = {qn: V.verify(qn) for qn in targets}
for qn, rep in reports.items():
    res = {}
    for ob in rep.obligations:
        res[ob.result] = res.get(ob.result, 0) + 1
    print('%-55s paths=%d aborted=%d bout=%d obs=%s canary=%s vacuous=%s %.2fs' % (qn, rep.paths, rep.aborted, rep.bounded_out, res, rep.canary, rep.vacuous, rep.wall_s))
    for u in rep.undecided: print('   UNDECIDED', u)
    seen = {}
    for ob in rep.obligations:
        if ob.result != 'proved':
            key = (ob.result, ob.oid, json.dumps(ob.site, default=str))
            seen.setdefault(key, []).append(ob)
    for (r, oid, site), obs in seen.items():
        ob = obs[0]
        print('   %s x%d %s | %s' % (r, len(obs), oid, ob.clause[:200]))
        print('        site=%s note=%s' % (site[:200], ob.note))
        shown = 2 if '--all' not in sys.argv else len(obs)
        for o in obs[:(1 if "--all" not in sys.argv else len(obs))]:
            print("        path:", " / ".join(o.path[-8:])[:300])
        if ob.witness and '--wit' in sys.argv: print('        witness', json.dumps(ob.witness)[:1500])
