import sys, importlib, time, json
sys.path.insert(0, '/verif')
from h2vc import spec, prove, deps_model
import contracts.layouts
for m in sys.argv[2].split(',') if len(sys.argv) > 2 else []:
    importlib.import_module('contracts.' + m)
spec.spec_module('/verif/contracts/specfns.py')
V = prove.Verifier()
pat = sys.argv[1] if len(sys.argv) > 1 else ''
for qn in list(spec.REGISTRY):
    if pat not in qn: continue
    rep = V.verify(qn)
    res = {}
    for ob in rep.obligations:
        res[ob.result] = res.get(ob.result, 0) + 1
    print('%-55s paths=%d aborted=%d obs=%s canary=%s vacuous=%s %.2fs' % (qn, rep.paths, rep.aborted, res, rep.canary, rep.vacuous, rep.wall_s))
    for u in rep.undecided: print('   UNDECIDED', u)
    for ob in rep.obligations:
        if ob.result != 'proved':
            print('   ', ob.result, ob.oid, '|', ob.clause, '|', ' / '.join(ob.path[-6:]), ob.site or '', ob.note)
            if ob.witness: print('       witness', json.dumps(ob.witness)[:300])
