"""dev helper: explore N paths of one function and report where decisions come from."""
import sys, time, collections
sys.path.insert(0, '/verif')
from h2vc import spec, prove, deps_model, cli, hdrmodel, interp
cli.load_contracts()
V = prove.Verifier()
lab = collections.Counter()
orig = prove.Verifier.run_path
times = []


def rp(self, I, fi, C, rep, first):
    t = time.time()
    try:
        return orig(self, I, fi, C, rep, first)
    finally:
        times.append(time.time() - t)
        for l in I.ctl.labels:
            lab[l.split('=')[0]] += 1


prove.Verifier.run_path = rp
rep, left = V.verify_partial(sys.argv[1], [[]], int(sys.argv[2]) if len(sys.argv) > 2 else 150)
print('paths', rep.paths, 'aborted', rep.aborted, 'bounded_out', rep.bounded_out, 'left', len(left),
      'avg path s', sum(times) / len(times), 'max', max(times))
for l, n in lab.most_common(40):
    print(n, l)
print(rep.undecided)
res = collections.Counter(ob.result for ob in rep.obligations)
print(res)
