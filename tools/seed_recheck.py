#!/usr/bin/env python3
"""Re-run checks against the stored seeded changes.
usage: seed_recheck.py [--checks all|own|C03,C04] [seed-id ...]"""
import json, os, subprocess, sys
ROOT = '/verif'
# evidence/replays of runs against a deliberately broken tree go here (git-ignored), never to /verif/evidence
SCRATCH_OUT = os.path.join(ROOT, '.cache', 'seed_out')


def sh(cmd, cwd=None, timeout=3000, env=None):
    e = dict(os.environ)
    e.update(env or {})
    p = subprocess.run(cmd, shell=True, cwd=cwd, env=e, capture_output=True, text=True, timeout=timeout)
    return p.returncode, p.stdout + p.stderr


def main():
    args = sys.argv[1:]
    checks = 'own'
    if '--checks' in args:
        i = args.index('--checks'); checks = args[i + 1]; del args[i:i + 2]
    seeds = args or sorted(os.listdir(os.path.join(ROOT, 'seeded')))
    man = json.load(open(os.path.join(ROOT, 'MANIFEST.json')))
    rc, out = sh('git status --porcelain', cwd='/repo')
    assert not out.strip(), '/repo not clean'
    summary = {}
    for sid in seeds:
        d = os.path.join(ROOT, 'seeded', sid)
        meta = json.load(open(os.path.join(d, 'meta.json')))
        prop = meta['property']
        sel = [prop] if checks == 'own' else ([c['property_id'] for c in man['checks']] if checks == 'all' else checks.split(','))
        rc, out = sh('git apply %s' % os.path.join(d, 'patch.diff'), cwd='/repo')
        assert rc == 0, out
        caught = meta.get('checks_run', {})
        try:
            for c in man['checks']:
                if c['property_id'] not in sel:
                    continue
                rc, out = sh(c['quick_cmd'], cwd=ROOT, env={'H2VC_OUT_DIR': SCRATCH_OUT})
                viol = [l for l in out.splitlines() if l.startswith('VIOLATION')]
                obl = [l.strip() for l in out.splitlines() if l.strip().startswith('obligation ')]
                caught[c['property_id']] = {'exit': rc, 'violations': viol[:5], 'obligations': obl[:5]}
        finally:
            sh('git checkout -- .', cwd='/repo')
        meta['checks_run'] = caught
        meta['detected_by'] = sorted(p for p, r in caught.items() if r['exit'] == 1)
        json.dump(meta, open(os.path.join(d, 'meta.json'), 'w'), indent=1)
        summary[sid] = meta['detected_by']
        print(sid, 'detected_by', meta['detected_by'], {p: r['exit'] for p, r in caught.items() if r['exit'] not in (0, 1)})
    return 0


if __name__ == '__main__':
    sys.exit(main())
