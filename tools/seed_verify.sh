#!/bin/sh
# usage: seed_verify.sh <seed-id>  -- re-confirms a stored seed against /repo HEAD in a scratch worktree:
# patch applies, 1403 baseline tests pass with it, demo exits 1 with it and 0 without it.
S=$1; D=/verif/seeded/$S; W=/tmp/seed/verify_$S
mkdir -p /tmp/seed
git -C /repo worktree add --detach $W HEAD -q || exit 2
trap 'git -C /repo worktree remove --force $W' EXIT
(cd $W && PYTHONPATH=$W/src timeout 600 /venv/bin/python $D/demo.py >/tmp/seed/$S.demo0.log 2>&1); D0=$?
git -C $W apply $D/patch.diff || { echo "$S: patch does not apply"; exit 2; }
(cd $W && PYTHONPATH=$W/src timeout 600 /venv/bin/python $D/demo.py >/tmp/seed/$S.demo1.log 2>&1); D1=$?
/tmp/seed/baseline.sh $W > /tmp/seed/$S.base.log 2>&1; B=$?
echo "$S: demo_without=$D0 demo_with=$D1 baseline_exit=$B ($(head -1 /tmp/seed/$S.base.log))"
[ $D0 = 0 ] && [ $D1 = 1 ] && [ $B = 0 ]
