#!/bin/sh
# usage: seed_intake.sh <PROP> <suffix>   e.g. C07 a  -> verifies /tmp/seed/<PROP>.out against a fresh scratch worktree, stores it as /verif/seeded/<PROP>-<suffix>
# Confirms: patch applies to /repo HEAD; 1403 baseline tests pass with it; demo exits 1 with it and 0 without it.
P=$1; S=$2; OUTD=/tmp/seed/$P.out; W=/tmp/seed/verify_$P
set -e
test -f $OUTD/patch.diff && test -f $OUTD/demo.py && test -f $OUTD/meta.json
git -C /repo worktree add --detach $W HEAD -q
trap 'git -C /repo worktree remove --force $W' EXIT
set +e
(cd $W && PYTHONPATH=$W/src timeout 600 /venv/bin/python $OUTD/demo.py >/tmp/seed/$P.demo0.log 2>&1); D0=$?
git -C $W apply $OUTD/patch.diff || { echo "patch does not apply"; exit 2; }
(cd $W && PYTHONPATH=$W/src timeout 600 /venv/bin/python $OUTD/demo.py >/tmp/seed/$P.demo1.log 2>&1); D1=$?
/tmp/seed/baseline.sh $W > /tmp/seed/$P.base.log 2>&1; B=$?
echo "$P: demo_without=$D0 demo_with=$D1 baseline_exit=$B ($(head -1 /tmp/seed/$P.base.log))"
if [ $D0 = 0 ] && [ $D1 = 1 ] && [ $B = 0 ]; then
  D=/verif/seeded/$P-$S; mkdir -p $D
  cp $OUTD/patch.diff $OUTD/demo.py $D/
  /venv/bin/python - $OUTD/meta.json $D/meta.json "$D0" "$D1" <<'PY'
import json, sys
m = json.load(open(sys.argv[1]))
m['confirmed'] = {'demo_exit_without_change': int(sys.argv[3]), 'demo_exit_with_change': int(sys.argv[4]),
                  'baseline': 'all 1403 stable-pass tests pass with the change (tools/seed_intake.sh, scratch worktree of /repo HEAD)'}
m.setdefault('checks_run', {}); m.setdefault('detected_by', [])
json.dump(m, open(sys.argv[2], 'w'), indent=1)
PY
  echo "stored $D"
else
  echo "NOT stored"; tail -5 /tmp/seed/$P.demo0.log /tmp/seed/$P.demo1.log
fi
