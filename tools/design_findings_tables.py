#!/usr/bin/env python3
"""Regenerate DESIGN.md section 9 (as built: fixes and recorded findings) from known_findings.json."""
import json
import os

ROOT = os.path.dirname(os.path.dirname(os.path.abspath(__file__)))
MARK = '---------------------------------------------------------------------------\n\n## 9. As built'


BUILT_VS_PLANNED = """
### 9.3 What of sections 2, 3 and 7 exists, and what does not

Built and run on every check: extraction from `/repo/src/h2/*.py` as text, the
symbolic interpreter with decision-replay path enumeration, sidecar contracts,
modular calls against callee contracts (the outcomes of a contract are explored
as nondeterministic alternatives), `GI` on normal and exceptional exits, the
dependency models, z3 (retried on other seeds) with cvc5 on `unknown`, the
vacuity check per function and per loop invariant, one canary per function that
must be refuted, known-finding matching, state-injection replay under
`/venv/bin/python`, bounded stand-ins reported separately, the report cache
(section 10.6), evidence.  Added in the third round (section 10): the inductive
loop rule (`receive_data`, every header pipeline stage, and -- with a ghost
`visited` set -- the per-stream loops over `self.streams`), self-recursion through
the function's own contract with a `decreases` measure (`FrameBuffer.__next__`),
functional summaries for modular callees, z3 lemmas, the layer-2 string /
header-field model, and the CPython cross-check of the engine on concrete inputs
(`tools/crosscheck.py`; run by every thorough check, a mismatch is exit 3).

Planned in section 2.8 / 3.2 / 3.5 and **not built**: the in-memory mutant catalogue, run-time contract
monitoring of the test suite, the history search of section 3.2(2) (a violation whose
state-injection replay does not reproduce is reported with
`no-failing-input-found`), the both-solvers-on-every-obligation thorough mode.
The **thorough tier differs from quick in the per-obligation solver budget**
(60 s instead of 10 s) **and in running the CPython cross-check first**; it
explores the same paths and bounds.  What
stands in for the mutant catalogue is `seeded/`: %d stored property-breaking
changes (patch + native demo that exits 1 with the change and 0 without; the
1403 baseline tests pass with each; all but the marked reintroductions were
written by sub-agents that saw only the property text), re-run with
`tools/seed_run.py` in scratch worktrees (never in `/repo`);
`seeded/<id>/meta.json` records which check reported each one.  Reported by
their own property's check: %s; not reported: %s (section 10.7 says why).
"""


def seed_status():
    d = os.path.join(ROOT, 'seeded')
    hit, miss = [], []
    for sid in sorted(os.listdir(d)):
        if not os.path.isdir(os.path.join(d, sid)):
            continue
        m = json.load(open(os.path.join(d, sid, 'meta.json')))
        (hit if m['property'] in m.get('detected_by', []) else miss).append(sid)
    return len(hit) + len(miss), ', '.join(hit) or 'none', ', '.join(miss) or 'none'


def props(f):
    p = f['property']
    return ', '.join(p) if isinstance(p, list) else p


def main():
    d = json.load(open(os.path.join(ROOT, 'known_findings.json')))
    man = json.load(open(os.path.join(ROOT, 'MANIFEST.json')))
    fixed = [f for f in d['findings'] if f['status'] == 'fixed']
    openf = [f for f in d['findings'] if f['status'] == 'open']
    reg = [c['property_id'] for c in man['checks']]
    na = [c['property_id'] for c in man.get('not_applicable', [])]
    out = [MARK + ''': what is registered, what was repaired in `/repo`, what is recorded

**Registered** (%d checks, all `./check prove --property Cxx`): %s.
**Not claimed** (§5): %s.  `python3-vt tools/run_all.py` runs all registered
quick commands as the harness does and validates the evidence each one rewrites.

Every refutation the first full runs produced on the unchanged tree was
replayed natively (state injection and, for the entries below, a hand-minimised
public-API history) and triaged per §3.3.  `known_findings.json` is the
authoritative list; the two tables restate it (`tools/design_findings_tables.py`).

### 9.1 Repaired in `/repo` (one unguarded `fix:` commit each; unedited suite passes; recorded as `fixed`, suppress nothing)

| id | property | commit | what failed (history in `known_findings.json`) |
|---|---|---|---|''' % (len(reg), ', '.join(reg), ', '.join(na))]
    for f in fixed:
        parts = f['line'].split(' ', 3)       # fixed: property=Cxx <commit> <what>
        out.append('| %s | %s | `%s` | %s |' % (f['id'], props(f), parts[2], parts[3]))
    out.append('''
### 9.2 Recorded, not repaired (`status: open`; the check prints `KNOWN-FINDING: property=<id> …` and exits 0)

Each entry suppresses exactly the (property, obligation, site[, path]) triples it
lists; the same clause failing at another site, on another path or in another
function is still a VIOLATION.

| id | property | what fails on the real code | why it is recorded rather than repaired |
|---|---|---|---|''')
    for f in openf:
        out.append('| %s | %s | %s — witness: %s | %s |' % (
            f['id'], props(f), f['what'].split(' ', 1)[1],
            '; '.join('`%s`' % w for w in f.get('witness', [])),
            f.get('why_not_fixed', 'the same defect as the entry whose number it shares, seen through another obligation')))
    out.append(BUILT_VS_PLANNED % seed_status())
    p = os.path.join(ROOT, 'DESIGN.md')
    s = open(p).read()
    tail = ''
    TAIL_MARK = '---------------------------------------------------------------------------\n\n## 10. '
    if TAIL_MARK in s:
        tail = '\n\n' + s[s.index(TAIL_MARK):].rstrip('\n') + '\n'
        s = s[:s.index(TAIL_MARK)]
    if MARK in s:
        s = s[:s.index(MARK)]
    open(p, 'w').write(s.rstrip('\n') + '\n\n' + '\n'.join(out).rstrip('\n') + tail)


if __name__ == '__main__':
    main()
