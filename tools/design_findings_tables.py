#!/usr/bin/env python3
"""Regenerate DESIGN.md section 9 (as built: fixes and recorded findings) from known_findings.json."""
import json
import os

ROOT = os.path.dirname(os.path.dirname(os.path.abspath(__file__)))
MARK = '---------------------------------------------------------------------------\n\n## 9. As built'


def props(f):
    p = f['property']
    return ', '.join(p) if isinstance(p, list) else p


def main():
    d = json.load(open(os.path.join(ROOT, 'known_findings.json')))
    man = json.load(open(os.path.join(ROOT, 'MANIFEST.json')))
    fixed = [f for f in d['findings'] if f['status'] == 'fixed']
    openf = [f for f in d['findings'] if f['status'] == 'open']
    reg = [c['property_id'] for c in man['checks']]
    na = [c['property_id'] for c in man.get('not_applicable', [])]
    out = [MARK + ''': what is registered, what was repaired in `/repo`, what is recorded

**Registered** (%d checks, all `./check prove --property Cxx`): %s.
**Not claimed** (§5): %s.  `python3-vt tools/run_all.py` runs all registered
quick commands as the harness does and validates the evidence each one rewrites.

Every refutation the first full runs produced on the unchanged tree was
replayed natively (state injection and, for the entries below, a hand-minimised
public-API history) and triaged per §3.3.  `known_findings.json` is the
authoritative list; the two tables restate it (`tools/design_findings_tables.py`).

### 9.1 Repaired in `/repo` (one unguarded `fix:` commit each; unedited suite passes; recorded as `fixed`, suppress nothing)

| id | property | commit | what failed (history in `known_findings.json`) |
|---|---|---|---|''' % (len(reg), ', '.join(reg), ', '.join(na))]
    for f in fixed:
        parts = f['line'].split(' ', 3)       # fixed: property=Cxx <commit> <what>
        out.append('| %s | %s | `%s` | %s |' % (f['id'], props(f), parts[2], parts[3]))
    out.append('''
### 9.2 Recorded, not repaired (`status: open`; the check prints `KNOWN-FINDING: property=<id> …` and exits 0)

Each entry suppresses exactly the (property, obligation, site[, path]) triples it
lists; the same clause failing at another site, on another path or in another
function is still a VIOLATION.

| id | property | what fails on the real code | why it is recorded rather than repaired |
|---|---|---|---|''')
    for f in openf:
        out.append('| %s | %s | %s — witness: %s | %s |' % (
            f['id'], props(f), f['what'].split(' ', 1)[1],
            '; '.join('`%s`' % w for w in f.get('witness', [])),
            f.get('why_not_fixed', 'the same defect as the entry whose number it shares, seen through another obligation')))
    out.append('')
    p = os.path.join(ROOT, 'DESIGN.md')
    s = open(p).read()
    if MARK in s:
        s = s[:s.index(MARK)]
    open(p, 'w').write(s.rstrip('\n') + '\n\n' + '\n'.join(out))


if __name__ == '__main__':
    main()
