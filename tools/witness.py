"""dev helper: first refuted obligation with a given label -> path + witness"""
import sys, json
sys.path.insert(0, '/verif')
from h2vc import spec, prove, deps_model, cli, hdrmodel
cli.load_contracts()
V = prove.Verifier()
qn, label = sys.argv[1], sys.argv[2]
work = [[]]
n = 0
while work:
    rep, left = V.verify_partial(qn, [work.pop()], 1)
    work.extend(left)
    n += 1
    for ob in rep.obligations:
        if ob.result != 'proved' and label in ob.oid:
            print(ob.oid, ob.result, ob.note)
            print('path:', ' / '.join(ob.path))
            print('site:', ob.site)
            w = ob.witness or {}
            s = w.pop('self', None)
            print(json.dumps(w, default=str)[:1500])
            if s: print('self:', json.dumps(s, default=str)[:3000])
            sys.exit()
print('none in', n, 'paths')
