#!/usr/bin/env python3
"""Run registered checks against the stored seeded changes WITHOUT touching /repo.
usage: seed_run.py [--checks own|all|C03,C04] [--jobs N] [--update-meta] [seed-id ...]

For each seed: a scratch git worktree of /repo HEAD under /tmp/seedrun/<id> gets seeded/<id>/patch.diff applied;
the selected quick commands run with H2VC_REPO pointing at it (the verifier reads that tree's src/h2/*.py, the
replay harness imports it through PYTHONPATH) and H2VC_OUT_DIR=.cache/seed_out/<id>, so neither /repo nor
/verif/evidence is ever written.  The worktree is removed afterwards.  Prints one line per (seed, check)."""
import concurrent.futures as cf
import json
import os
import subprocess
import sys

ROOT = os.path.dirname(os.path.dirname(os.path.abspath(__file__)))
SCR = '/tmp/seedrun'


def sh(cmd, cwd=None, env=None, timeout=7200):
    e = dict(os.environ)
    e.update(env or {})
    p = subprocess.run(cmd, shell=True, cwd=cwd, env=e, capture_output=True, text=True, timeout=timeout)
    return p.returncode, p.stdout + p.stderr


def run_seed(sid, sel, man):
    d = os.path.join(ROOT, 'seeded', sid)
    meta = json.load(open(os.path.join(d, 'meta.json')))
    prop = meta['property']
    if meta.get('obsolete'):
        return sid, prop, {'error': 'obsolete (see meta.json)'}
    wt = os.path.join(SCR, sid)
    sh('git -C /repo worktree remove --force %s' % wt)
    rc, out = sh('git -C /repo worktree add --detach %s HEAD -q' % wt)
    if rc:
        return sid, prop, {'error': out}
    res = {}
    try:
        rc, out = sh('git apply %s' % os.path.join(d, 'patch.diff'), cwd=wt)
        if rc:
            return sid, prop, {'error': 'patch does not apply: ' + out[-300:]}
        props = [prop] if sel == 'own' else ([c['property_id'] for c in man['checks']] if sel == 'all' else sel.split(','))
        for c in man['checks']:
            if c['property_id'] not in props:
                continue
            env = {'H2VC_REPO': wt, 'H2VC_OUT_DIR': os.path.join(ROOT, '.cache', 'seed_out', sid),
                   'PYTHONPATH': os.path.join(wt, 'src')}
            rc, out = sh(c['quick_cmd'], cwd=ROOT, env=env)
            viol = [l for l in out.splitlines() if l.startswith('VIOLATION')]
            obl = [l.strip() for l in out.splitlines() if l.strip().startswith('obligation ')]
            other = [l for l in out.splitlines() if l.startswith(('UNDECIDED', 'CHECKER-ERROR'))]
            res[c['property_id']] = {'exit': rc, 'violations': viol[:6], 'obligations': obl[:6], 'other': other[:3]}
    finally:
        sh('git -C /repo worktree remove --force %s' % wt)
    return sid, prop, res


def main():
    args = sys.argv[1:]
    sel, jobs, update = 'own', 2, False
    if '--checks' in args:
        i = args.index('--checks'); sel = args[i + 1]; del args[i:i + 2]
    if '--jobs' in args:
        i = args.index('--jobs'); jobs = int(args[i + 1]); del args[i:i + 2]
    if '--update-meta' in args:
        update = True; args.remove('--update-meta')
    seeds = args or sorted(x for x in os.listdir(os.path.join(ROOT, 'seeded')) if os.path.isdir(os.path.join(ROOT, 'seeded', x)))
    man = json.load(open(os.path.join(ROOT, 'MANIFEST.json')))
    os.makedirs(SCR, exist_ok=True)
    with cf.ThreadPoolExecutor(max_workers=jobs) as ex:
        for sid, prop, res in ex.map(lambda s: run_seed(s, sel, man), seeds):
            if 'error' in res:
                print('%-7s ERROR %s' % (sid, res['error'])); continue
            det = sorted(p for p, r in res.items() if r['exit'] == 1)
            und = sorted(p for p, r in res.items() if r['exit'] not in (0, 1))
            print('%-7s property=%s detected_by=%s%s' % (sid, prop, det, (' undecided/error=%s' % und) if und else ''))
            for p, r in res.items():
                if r['exit'] == 1:
                    for o in r['obligations'][:3]:
                        print('          %s: %s' % (p, o[:200]))
                elif r['exit'] != 0:
                    print('          %s exit=%s %s' % (p, r['exit'], r['other'][:2]))
            if update:
                mp = os.path.join(ROOT, 'seeded', sid, 'meta.json')
                meta = json.load(open(mp))
                meta.setdefault('checks_run', {}).update(res)
                meta['detected_by'] = sorted(p for p, r in meta['checks_run'].items() if r.get('exit') == 1)
                json.dump(meta, open(mp, 'w'), indent=1)
    sh('git -C /repo worktree prune')


if __name__ == '__main__':
    main()
