#!/usr/bin/env python3
"""Confirm a seeded change delivered in a scratch worktree and run the checks
against it.   usage: seed_eval.py <worktree> <seed-id> [--checks C03,C04|all]

1. in the worktree: the suite result with the change equals the baseline
   (1403 stable tests pass), demo.py exits 1 with the change and 0 without;
2. copies patch.diff / demo.py / meta.json to /verif/seeded/<seed-id>/;
3. applies the patch to /repo, runs the selected ./check commands, undoes it
   (git -C /repo checkout -- .), and records which checks raised VIOLATION."""
import json
import os
import shutil
import subprocess
import sys

ROOT = '/verif'
# evidence/replays of runs against a deliberately broken tree go here (git-ignored), never to /verif/evidence
SCRATCH_OUT = os.path.join(ROOT, '.cache', 'seed_out')


def sh(cmd, cwd=None, env=None, timeout=3000):
    e = dict(os.environ)
    if env:
        e.update(env)
    p = subprocess.run(cmd, shell=True, cwd=cwd, env=e, capture_output=True, text=True, timeout=timeout)
    return p.returncode, p.stdout + p.stderr


def suite(wt):
    rc, out = sh('/venv/bin/python -m pytest -q -p no:cacheprovider test 2>&1 | tail -1', cwd=wt,
                 env={'PYTHONPATH': wt + '/src'})
    return out.strip()


def main():
    wt, sid = sys.argv[1], sys.argv[2]
    checks = 'auto'
    if '--checks' in sys.argv:
        checks = sys.argv[sys.argv.index('--checks') + 1]
    meta = json.load(open(os.path.join(wt, 'meta.json')))
    prop = meta['property']
    res = {'seed': sid, 'property': prop}
    # 1. confirm in the worktree
    # the delivered patch.diff is authoritative (never `git stash`: the stash is shared by all worktrees)
    sh('git checkout -- src', cwd=wt)
    rc, out = sh('git apply patch.diff', cwd=wt)
    assert rc == 0, out
    rc, diff = sh('git diff -- src', cwd=wt)
    assert diff.strip(), 'no source change in worktree'
    res['suite_with_change'] = suite(wt)
    rc1, out1 = sh('/venv/bin/python demo.py', cwd=wt, env={'PYTHONPATH': wt + '/src'})
    sh('git apply -R patch.diff', cwd=wt)
    res['suite_without_change'] = suite(wt)
    rc0, out0 = sh('/venv/bin/python demo.py', cwd=wt, env={'PYTHONPATH': wt + '/src'})
    sh('git apply patch.diff', cwd=wt)
    res['demo_exit_with_change'], res['demo_exit_without_change'] = rc1, rc0
    res['demo_output_with_change'] = out1[-600:]
    ok = rc1 != 0 and rc0 == 0 and '1403 passed' in res['suite_with_change']
    res['confirmed'] = ok
    print(json.dumps({k: v for k, v in res.items() if k != 'demo_output_with_change'}, indent=1))
    if not ok:
        print('NOT CONFIRMED')
        return 1
    # 2. keep it
    d = os.path.join(ROOT, 'seeded', sid)
    os.makedirs(d, exist_ok=True)
    for f in ('patch.diff', 'demo.py'):
        shutil.copy(os.path.join(wt, f), os.path.join(d, f))
    # 3. run the checks against it
    man = json.load(open(os.path.join(ROOT, 'MANIFEST.json')))
    if checks == 'auto':
        sel = [prop]
    elif checks == 'all':
        sel = [c['property_id'] for c in man['checks']]
    else:
        sel = checks.split(',')
    rc, out = sh('git status --porcelain', cwd='/repo')
    assert not out.strip(), '/repo not clean'
    rc, out = sh('git apply %s' % os.path.join(d, 'patch.diff'), cwd='/repo')
    assert rc == 0, out
    caught = {}
    try:
        for c in man['checks']:
            if c['property_id'] not in sel:
                continue
            rc, out = sh(c['quick_cmd'], cwd=ROOT, env={'H2VC_OUT_DIR': SCRATCH_OUT})
            viol = [l for l in out.splitlines() if l.startswith('VIOLATION')]
            obl = [l.strip() for l in out.splitlines() if l.strip().startswith('obligation ')]
            caught[c['property_id']] = {'exit': rc, 'violations': viol[:5], 'obligations': obl[:5]}
            print(c['property_id'], 'exit', rc, viol[:2], obl[:2])
    finally:
        sh('git checkout -- .', cwd='/repo')
    meta.update({'what_it_needs': meta.get('needs'), 'confirmed_by': {
        'suite_with_change': res['suite_with_change'], 'suite_without_change': res['suite_without_change'],
        'demo_exit_with_change': rc1, 'demo_exit_without_change': rc0},
        'checks_run': caught,
        'detected_by': sorted(p for p, r in caught.items() if r['exit'] == 1)})
    json.dump(meta, open(os.path.join(d, 'meta.json'), 'w'), indent=1)
    print('detected_by', meta['detected_by'])
    return 0


if __name__ == '__main__':
    sys.exit(main())
