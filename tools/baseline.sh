#!/bin/sh
# usage: baseline.sh <worktree-dir>   -> exit 0 iff all 1403 baseline-passing tests still pass in that worktree
W=$1
OUT=$(mktemp /tmp/junit.XXXXXX.xml)
cd $W && PYTHONPATH=$W/src /venv/bin/python -m pytest -q -p no:cacheprovider --timeout=900 --continue-on-collection-errors --junitxml=$OUT >/dev/null 2>&1
/venv/bin/python - "$OUT" <<'PY'
import json, sys, xml.etree.ElementTree as ET
base = set(json.load(open('/root/.vp/BASELINE.json'))['stable_pass'])
root = ET.parse(sys.argv[1]).getroot()
passed = set()
for tc in root.iter('testcase'):
    tid = (tc.get('classname') or '') + '::' + (tc.get('name') or '')
    if not any(c.tag in ('failure', 'error', 'skipped') for c in tc):
        passed.add(tid)
missing = sorted(base - passed)
print('baseline stable_pass=%d passed_now=%d missing=%d' % (len(base), len(passed & base), len(missing)))
for m in missing[:20]:
    print('  MISSING', m)
sys.exit(1 if missing else 0)
PY
RC=$?
rm -f $OUT
exit $RC
