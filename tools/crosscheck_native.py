#!/venv/bin/python
"""Native half of the engine cross-check: runs the REAL h2 functions on the concrete cases in argv[1] (JSON) and
prints one JSON outcome per case.  Outcome = ['ret', value] | ['exc', class name] (+ observed object state)."""
import json
import sys


def conv(v):
    import enum
    if isinstance(v, enum.Enum):
        return int(v.value) if isinstance(v.value, int) else str(v)
    if isinstance(v, (bytes, bytearray)):
        return {'b': bytes(v).decode('latin-1')}
    if isinstance(v, tuple) and hasattr(v, '_fields'):
        return {k: conv(getattr(v, k)) for k in v._fields}
    if isinstance(v, (list, tuple)):
        return [conv(x) for x in v]
    if isinstance(v, dict):
        return {str(conv(k)): conv(x) for k, x in v.items()}
    if v is None or isinstance(v, (bool, int, str)):
        return v
    return type(v).__name__


def hdr(h):
    return tuple(x['b'].encode('latin-1') if isinstance(x, dict) else x for x in h)


def main():
    import h2.settings, h2.utilities, h2.windows, h2.stream, h2.connection, h2.frame_buffer
    from h2.utilities import HeaderValidationFlags
    cases = json.load(open(sys.argv[1]))
    out = []
    for c in cases:
        kind = c['kind']
        try:
            if kind == 'validate_setting':
                r = ['ret', conv(h2.settings._validate_setting(c['setting'], c['value']))]
            elif kind == 'guard':
                r = ['ret', h2.utilities.guard_increment_window(c['current'], c['increment'])]
            elif kind == 'window':
                wm = h2.windows.WindowManager(c['max'])
                trace = []
                for op, arg in c['ops']:
                    try:
                        res = getattr(wm, op)(arg)
                        trace.append(['ret', res, wm.max_window_size, wm.current_window_size, wm._bytes_processed])
                    except Exception as e:
                        trace.append(['exc', type(e).__name__, wm.max_window_size, wm.current_window_size, wm._bytes_processed])
                r = ['ret', trace]
            elif kind == 'stream_fsm':
                sm = h2.stream.H2StreamStateMachine(c['stream_id'])
                sm.state = h2.stream.StreamState(c['state'])
                for k in ('client', 'headers_sent', 'trailers_sent', 'headers_received', 'trailers_received'):
                    setattr(sm, k, c[k])
                sm.stream_closed_by = None if c['closed_by'] is None else h2.stream.StreamClosedBy(c['closed_by'])
                try:
                    ev = sm.process_input(h2.stream.StreamInputs(c['input']))
                    res = ['ret', None if ev is None else [type(e).__name__ for e in ev]]
                except Exception as e:
                    res = ['exc', type(e).__name__]
                r = ['ret', [res, sm.state.value, sm.client, bool(sm.headers_sent), bool(sm.trailers_sent), bool(sm.headers_received),
                             bool(sm.trailers_received), None if sm.stream_closed_by is None else sm.stream_closed_by.value]]
            elif kind == 'conn_fsm':
                sm = h2.connection.H2ConnectionStateMachine()
                sm.state = h2.connection.ConnectionState(c['state'])
                try:
                    sm.process_input(h2.connection.ConnectionInputs(c['input']))
                    res = 'ret'
                except Exception as e:
                    res = type(e).__name__
                r = ['ret', [res, sm.state.value]]
            elif kind in ('validate_headers', 'validate_outbound_headers', 'normalize_outbound_headers', 'normalize_inbound_headers'):
                flags = HeaderValidationFlags(**c['flags'])
                hs = [hdr(h) for h in c['headers']]
                res = list(getattr(h2.utilities, kind)(hs, flags))
                r = ['ret', [[conv(x[0]), conv(x[1]), type(x).__name__] for x in res]]
            elif kind == 'add_data':
                fb = h2.frame_buffer.FrameBuffer(server=c['server'])
                trace = []
                for chunk in c['chunks']:
                    try:
                        fb.add_data(chunk['b'].encode('latin-1'))
                        trace.append(['ret', conv(fb.data), fb._preamble_len])
                    except Exception as e:
                        trace.append(['exc', type(e).__name__])
                        break
                r = ['ret', trace]
            else:
                r = ['skip']
        except Exception as e:
            r = ['exc', type(e).__name__]
        out.append(r)
    json.dump(out, sys.stdout)


if __name__ == '__main__':
    main()
