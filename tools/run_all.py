#!/usr/bin/env python3
"""Run every registered check the way the harness does and validate what it wrote.
usage: python3-vt tools/run_all.py [--tier quick|thorough] [--only C03,C05] [--jobs N]

For each check in MANIFEST.json: remove its evidence file, run the command in /verif, then require
  exit 0, no VIOLATION line, evidence rewritten, evidence valid against /root/.vp/EVIDENCE.schema.json,
  evidence.level == level_claimed.category, and for level proof coverage.discharged == coverage.obligations.
Refuses to run when /repo/src differs from HEAD (the committed evidence must describe the unchanged tree;
runs against deliberately broken trees go through tools/seed_*.py, which write to .cache/seed_out).
Exit 0 iff every check is quiet and every evidence file is a valid record."""
import json
import os
import subprocess
import sys
import time

ROOT = os.path.dirname(os.path.dirname(os.path.abspath(__file__)))
SCHEMA = '/root/.vp/EVIDENCE.schema.json'


def validate(ev_path, check):
    problems = []
    if not os.path.exists(ev_path):
        return ['evidence not rewritten']
    try:
        ev = json.load(open(ev_path))
    except Exception as e:
        return ['evidence unreadable: %r' % (e,)]
    try:
        import jsonschema
        if os.path.exists(SCHEMA):
            jsonschema.validate(ev, json.load(open(SCHEMA)))
    except ImportError:
        problems.append('jsonschema not importable: schema not checked')
    except Exception as e:
        problems.append('schema: %s' % str(e).splitlines()[0])
    if ev.get('property_id') != check['property_id']:
        problems.append('property_id mismatch')
    if ev.get('level') != check['level_claimed']['category']:
        problems.append('level %r != claimed %r' % (ev.get('level'), check['level_claimed']['category']))
    c = ev.get('coverage', {})
    if ev.get('level') == 'proof':
        if c.get('obligations', 0) < 1:
            problems.append('zero obligations')
        if c.get('discharged') != c.get('obligations'):
            problems.append('coverage.discharged (%s) != obligations (%s)' % (c.get('discharged'), c.get('obligations')))
    if ev.get('violations'):
        problems.append('violations=%s' % ev['violations'])
    if c.get('tree', {}).get('src_modified_files'):
        problems.append('written from a modified tree: %s' % c['tree']['src_modified_files'])
    return problems


def main():
    args = sys.argv[1:]
    tier = 'quick'
    only = None
    if '--tier' in args:
        tier = args[args.index('--tier') + 1]
    if '--only' in args:
        only = set(args[args.index('--only') + 1].split(','))
    man = json.load(open(os.path.join(ROOT, 'MANIFEST.json')))
    d = subprocess.run(['git', '-C', '/repo', 'status', '--porcelain', '--', 'src'], capture_output=True, text=True)
    if d.stdout.strip():
        print('refusing: /repo/src differs from HEAD:\n' + d.stdout)
        return 3
    env = dict(os.environ)
    env.update({'VERIF_TIER': tier, 'PIP_NO_INDEX': '1'})
    env.setdefault('VERIF_SEED', '1')
    env.pop('H2VC_OUT_DIR', None)
    bad = 0
    for c in man['checks']:
        pid = c['property_id']
        if only and pid not in only:
            continue
        cmd = c['quick_cmd'] if tier == 'quick' else c.get('thorough_cmd', c['quick_cmd'])
        ev_path = os.path.join(ROOT, c['evidence_file'])
        if os.path.exists(ev_path):
            os.remove(ev_path)
        t0 = time.time()
        p = subprocess.run(cmd, shell=True, cwd=ROOT, env=env, capture_output=True, text=True)
        out = p.stdout + p.stderr
        problems = []
        if p.returncode != 0:
            problems.append('exit %d' % p.returncode)
        if any(l.startswith('VIOLATION') for l in out.splitlines()):
            problems.append('VIOLATION line')
        problems += validate(ev_path, c)
        last = out.strip().splitlines()[-1] if out.strip() else ''
        print('%s %-4s %5.1fs  %s%s' % ('ok ' if not problems else 'BAD', pid, time.time() - t0, last,
                                       ('   <-- ' + '; '.join(problems)) if problems else ''), flush=True)
        if problems:
            bad += 1
            sys.stdout.write(''.join('      ' + l + '\n' for l in out.splitlines()[:40]))
    print('%d checks, %d with problems' % (len([c for c in man['checks'] if not only or c['property_id'] in only]), bad))
    return 1 if bad else 0


if __name__ == '__main__':
    sys.exit(main())
