#!/usr/bin/env python3
"""CPython cross-check of the h2vc interpreter (DESIGN 2.8): the SAME real functions are run (a) natively under
/venv/bin/python and (b) by the symbolic interpreter on the same CONCRETE inputs; outcomes (return value /
exception class / observed object state) must agree.  This tests the Python semantics the engine assumes
(comparisons, integer arithmetic, enum and table lookups, exceptions, generators, bytes slicing) on the code it
verifies; a mismatch is an engine bug (exit 3), never a property verdict.

usage: python3-vt tools/crosscheck.py [--cases N] [--seed S]     exit 0 = all agree, 3 = mismatch / crash"""
import json
import os
import random
import subprocess
import sys
import tempfile

ROOT = os.path.dirname(os.path.dirname(os.path.abspath(__file__)))
sys.path.insert(0, ROOT)


def gen_cases(rng, n):
    cases = []
    B = [0, 1, 2, 16383, 16384, 16385, 2 ** 24 - 1, 2 ** 24, 2 ** 31 - 1, 2 ** 31, 2 ** 32 - 1, 2 ** 32, -1, 65535, 65536]
    for _ in range(n):
        cases.append({'kind': 'validate_setting', 'setting': rng.choice([1, 2, 3, 4, 5, 6, 8, 9, 0, 77]), 'value': rng.choice(B + [rng.randrange(-5, 2 ** 33)])})
        cases.append({'kind': 'guard', 'current': rng.choice(B + [rng.randrange(-2 ** 31, 2 ** 31)]), 'increment': rng.choice(B + [rng.randrange(-2 ** 31, 2 ** 31)])})
        m = rng.choice([0, 1, 5, 1023, 1024, 4096, 65535, 2 ** 31 - 1, rng.randrange(0, 2 ** 31)])
        ops = []
        for _ in range(rng.randrange(1, 7)):
            op = rng.choice(['window_consumed', 'window_opened', 'process_bytes'])
            ops.append([op, rng.choice([0, 1, 2, 511, 512, 1024, m // 2, m // 4 + 1, m, rng.randrange(0, m + 2)])])
        cases.append({'kind': 'window', 'max': m, 'ops': ops})
    for st in range(7):
        for inp in range(19):
            for _ in range(max(1, n // 40)):
                cases.append({'kind': 'stream_fsm', 'stream_id': rng.choice([1, 2, 7]), 'state': st, 'input': inp,
                              'client': rng.choice([None, True, False]), 'headers_sent': rng.choice([None, True]),
                              'trailers_sent': rng.choice([None, True]), 'headers_received': rng.choice([None, True]),
                              'trailers_received': rng.choice([None, True]), 'closed_by': rng.choice([None, 0, 1, 2, 3])})
    for st in range(4):
        for inp in range(20):
            cases.append({'kind': 'conn_fsm', 'state': st, 'input': inp})
    names = [b':method', b':scheme', b':path', b':authority', b':status', b':protocol', b':bogus', b'host', b'te', b'connection',
             b'upgrade', b'cookie', b'authorization', b'x-a', b'X-Upper', b' padded ', b'content-length', b'']
    values = [b'GET', b'CONNECT', b'https', b'/', b'', b'example.com', b'other.example', b'200', b'101', b'trailers', b'gzip',
              b'a=b', b'a-cookie-value-that-is-long-enough', b' v ', b'10']
    for _ in range(n):
        hs = [[{'b': rng.choice(names).decode('latin-1')}, {'b': rng.choice(values).decode('latin-1')}] for _ in range(rng.randrange(0, 7))]
        if rng.random() < 0.5:
            hs = [[{'b': ':method'}, {'b': 'GET'}], [{'b': ':scheme'}, {'b': 'https'}], [{'b': ':path'}, {'b': '/'}], [{'b': ':authority'}, {'b': 'example.com'}]] + hs
        flags = {'is_client': rng.choice([None, True, False]), 'is_trailer': rng.random() < 0.2, 'is_response_header': rng.random() < 0.3,
                 'is_push_promise': rng.random() < 0.1}
        cases.append({'kind': rng.choice(['validate_headers', 'validate_outbound_headers', 'normalize_outbound_headers', 'normalize_inbound_headers']),
                      'headers': hs, 'flags': flags})
    pre = 'PRI * HTTP/2.0\r\n\r\nSM\r\n\r\n'
    for _ in range(max(4, n // 4)):
        data = (pre if rng.random() < 0.7 else pre[:10] + 'X' + pre[11:]) + 'abcdefghijklmnop'[:rng.randrange(0, 16)]
        cuts = sorted(rng.sample(range(len(data) + 1), rng.randrange(0, 4)))
        chunks = [data[a:b] for a, b in zip([0] + cuts, cuts + [len(data)])]
        cases.append({'kind': 'add_data', 'server': rng.random() < 0.8, 'chunks': [{'b': c} for c in chunks]})
    return cases


class EngineRunner:
    def __init__(self):
        from h2vc import cli, prove, spec
        from h2vc.core import PathCtl, Frame
        cli.load_contracts()
        self.V = prove.Verifier()
        self.P = self.V.P
        self.PathCtl, self.Frame = PathCtl, Frame

    def interp(self, module):
        I = self.V.new_interp([])
        I.contracts, I.modular, I.current_contract = {}, set(), None      # everything inlined: the real bodies run
        I.frames.append(self.Frame(None, {}, self.P.modules[module]))
        return I

    def conv(self, I, v):
        import z3
        from h2vc.values import EnumV, Ref, ListObj, Obj, SymStr, Opt
        if isinstance(v, z3.ExprRef):
            s = z3.simplify(v)
            if z3.is_int_value(s):
                return s.as_long()
            if z3.is_true(s):
                return True
            if z3.is_false(s):
                return False
            if z3.is_string_value(s):
                return {'b': s.as_string()}
            return 'SYMBOLIC:' + str(s)[:60]
        if isinstance(v, Opt):
            isn = self.conv(I, v.isnone) if not isinstance(v.isnone, bool) else v.isnone
            return None if isn is True else self.conv(I, v.val)
        if isinstance(v, EnumV):
            return self.conv(I, v.val)
        if isinstance(v, (bytes, bytearray)):
            return {'b': bytes(v).decode('latin-1')}
        if isinstance(v, tuple):
            return [self.conv(I, x) for x in v]
        if isinstance(v, Ref):
            o = I.heap.get(v)
            if isinstance(o, ListObj):
                return [self.conv(I, x) for x in o.items]
            if isinstance(o, Obj):
                if str(o.cls).startswith('hpack.'):
                    return [self.conv(I, o.fields['t'][0]), self.conv(I, o.fields['t'][1]), str(o.cls).split('.')[-1]]
                return o.cls.name if hasattr(o.cls, 'name') else str(o.cls).split('.')[-1]
        if v is None or isinstance(v, (bool, int, str)):
            return v
        return 'VALUE:' + repr(v)[:60]

    def exc_name(self, I, pr):
        return I.exc_class_name(pr.exc).split('.')[-1]

    def run(self, c):
        from h2vc.core import PyRaise
        from h2vc.values import EnumV
        kind = c['kind']
        P = self.P
        try:
            if kind == 'validate_setting':
                I = self.interp('h2.settings')
                return ['ret', self.conv(I, I.call_function(P.functions['h2.settings._validate_setting'], [c['setting'], c['value']], {}))]
            if kind == 'guard':
                I = self.interp('h2.utilities')
                return ['ret', self.conv(I, I.call_function(P.functions['h2.utilities.guard_increment_window'], [c['current'], c['increment']], {}))]
            if kind == 'window':
                I = self.interp('h2.windows')
                ci = P.classes['h2.windows.WindowManager']
                wm = I.instantiate(ci, [c['max']], {})
                trace = []
                for op, arg in c['ops']:
                    f = lambda n: self.conv(I, I.heap.get(wm).fields[n])
                    try:
                        res = I.call_function(P.lookup_method(ci, op), [wm, arg], {})
                        trace.append(['ret', self.conv(I, res), f('max_window_size'), f('current_window_size'), f('_bytes_processed')])
                    except PyRaise as pr:
                        trace.append(['exc', self.exc_name(I, pr), f('max_window_size'), f('current_window_size'), f('_bytes_processed')])
                return ['ret', trace]
            if kind == 'stream_fsm':
                I = self.interp('h2.stream')
                ci = P.classes['h2.stream.H2StreamStateMachine']
                sm = I.instantiate(ci, [c['stream_id']], {})
                o = I.heap.get(sm)
                o.fields['state'] = EnumV(P.classes['h2.stream.StreamState'], c['state'])
                for k in ('client', 'headers_sent', 'trailers_sent', 'headers_received', 'trailers_received'):
                    o.fields[k] = c[k]
                o.fields['stream_closed_by'] = None if c['closed_by'] is None else EnumV(P.classes['h2.stream.StreamClosedBy'], c['closed_by'])
                try:
                    ev = I.call_function(P.lookup_method(ci, 'process_input'), [sm, EnumV(P.classes['h2.stream.StreamInputs'], c['input'])], {})
                    res = ['ret', self.conv(I, ev)]
                except PyRaise as pr:
                    res = ['exc', self.exc_name(I, pr)]
                g = lambda n: self.conv(I, o.fields[n])
                tb = lambda n: bool(g(n))
                return ['ret', [res, g('state'), g('client'), tb('headers_sent'), tb('trailers_sent'), tb('headers_received'),
                                tb('trailers_received'), g('stream_closed_by')]]
            if kind == 'conn_fsm':
                I = self.interp('h2.connection')
                ci = P.classes['h2.connection.H2ConnectionStateMachine']
                sm = I.instantiate(ci, [], {})
                o = I.heap.get(sm)
                o.fields['state'] = EnumV(P.classes['h2.connection.ConnectionState'], c['state'])
                try:
                    I.call_function(P.lookup_method(ci, 'process_input'), [sm, EnumV(P.classes['h2.connection.ConnectionInputs'], c['input'])], {})
                    res = 'ret'
                except PyRaise as pr:
                    res = self.exc_name(I, pr)
                return ['ret', [res, self.conv(I, o.fields['state'])]]
            if kind in ('validate_headers', 'validate_outbound_headers', 'normalize_outbound_headers', 'normalize_inbound_headers'):
                from h2vc.values import ListObj
                I = self.interp('h2.utilities')
                mod = P.modules['h2.utilities']
                hvf = I.global_value(P.resolve_name(mod, 'HeaderValidationFlags'), 'HeaderValidationFlags')
                fl = c['flags']
                flags = I.call_value(hvf, [], {k: fl[k] for k in ('is_client', 'is_trailer', 'is_response_header', 'is_push_promise')})
                hs = I.heap.alloc(ListObj([tuple(x['b'].encode('latin-1') for x in h) for h in c['headers']]))
                g = I.call_function(P.functions['h2.utilities.' + kind], [hs, flags], {})
                res = list(I.iter_values(g))
                out = []
                for x in res:
                    cx = self.conv(I, x)
                    out.append(cx if len(cx) == 3 else cx + ['tuple'])
                return ['ret', out]
            if kind == 'add_data':
                I = self.interp('h2.frame_buffer')
                ci = P.classes['h2.frame_buffer.FrameBuffer']
                fb = I.instantiate(ci, [], {'server': c['server']})
                trace = []
                for chunk in c['chunks']:
                    try:
                        I.call_function(P.lookup_method(ci, 'add_data'), [fb, chunk['b'].encode('latin-1')], {})
                        o = I.heap.get(fb)
                        trace.append(['ret', self.conv(I, o.fields['data']), self.conv(I, o.fields['_preamble_len'])])
                    except PyRaise as pr:
                        trace.append(['exc', self.exc_name(I, pr)])
                        break
                return ['ret', trace]
            return ['skip']
        except PyRaise as pr:
            return ['exc', self.exc_name(I, pr)]


def main():
    args = sys.argv[1:]
    n = int(args[args.index('--cases') + 1]) if '--cases' in args else 200
    seed = int(args[args.index('--seed') + 1]) if '--seed' in args else int(os.environ.get('VERIF_SEED', '0'))
    rng = random.Random(seed)
    cases = gen_cases(rng, n)
    with tempfile.NamedTemporaryFile('w', suffix='.json', delete=False) as f:
        json.dump(cases, f)
        path = f.name
    try:
        out = subprocess.run(['/venv/bin/python', os.path.join(ROOT, 'tools', 'crosscheck_native.py'), path],
                             capture_output=True, text=True, timeout=1200)
        if out.returncode != 0:
            print('CHECKER-ERROR crosscheck: native runner failed\n' + out.stderr[-2000:])
            return 3
        native = json.loads(out.stdout)
    finally:
        os.unlink(path)
    E = EngineRunner()
    bad, crashed, per_kind = [], [], {}
    for c, nat in zip(cases, native):
        try:
            eng = E.run(c)
        except Exception as e:      # Unsupported etc.: the engine cannot run this case concretely
            crashed.append((c, '%s: %s' % (type(e).__name__, e)))
            continue
        per_kind[c['kind']] = per_kind.get(c['kind'], 0) + 1
        if json.dumps(eng, sort_keys=True) != json.dumps(nat, sort_keys=True):
            bad.append((c, nat, eng))
    print('crosscheck seed=%d cases=%d compared=%s engine_could_not_run=%d mismatches=%d' % (seed, len(cases), per_kind, len(crashed), len(bad)))
    for c, why in crashed[:5]:
        print('  NOT-RUN', json.dumps(c)[:200], why[:200])
    for c, nat, eng in bad[:10]:
        print('  MISMATCH', json.dumps(c)[:300])
        print('     native:', json.dumps(nat)[:300])
        print('     engine:', json.dumps(eng)[:300])
    return 3 if bad else 0


if __name__ == '__main__':
    sys.exit(main())
