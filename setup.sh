#!/bin/sh
# verifies tool presence only; nothing is fetched or compiled
set -e
python3-vt -c "import z3; print('z3', z3.get_version_string())"
/usr/bin/cvc5 --version | head -1
/venv/bin/python -c "import h2, hyperframe, hpack; print('h2', h2.__version__)"
