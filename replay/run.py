#!/venv/bin/python
"""Native replay of a refuted obligation against the REAL h2 code (state
injection).  Exit 1: the clause is false / a non-declared exception escapes on
the real code (violation confirmed).  Exit 0: not reproduced.  Exit 3: harness
error."""
import ast
import copy
import importlib
import json
import os
import sys

ROOT = os.path.dirname(os.path.dirname(os.path.abspath(__file__)))
sys.path.insert(0, os.path.join(ROOT, 'contracts'))
import specfns  # noqa


def implies(a, b):
    return (not a) or bool(b)


def iff(a, b):
    return bool(a) == bool(b)


def ite(c, a, b):
    return a if c else b


def resolve(qualname):
    parts = qualname.split('.')
    for i in range(len(parts), 0, -1):
        try:
            mod = importlib.import_module('.'.join(parts[:i]))
        except ImportError:
            continue
        obj = mod
        for p in parts[i:]:
            if p == 'setter':
                continue
            obj = getattr(obj, p) if not isinstance(obj, property) else obj
        return obj
    raise ImportError(qualname)


def build(v):
    """witness JSON -> real Python value."""
    if isinstance(v, dict):
        if 'kind' in v and 'text' in v:
            t = decode_z3_string(v['text'])
            return t.encode('latin-1', 'replace') if v['kind'] == 'bytes' else t
        if '__class__' in v:
            cls = resolve(v['__class__'])
            o = construct(cls, v['fields'])
            apply_fields(o, v['fields'])
            return o
        if '__real__' in v:
            return BUILDERS[v['__real__']](v)
        return {k: build(x) for k, x in v.items()}
    if isinstance(v, list):
        return [build(x) for x in v]
    if isinstance(v, str) and '.' in v and v.split('.')[0] in ENUMS:
        return getattr(ENUMS[v.split('.')[0]], v.split('.')[1])
    return v


def is_placeholder(x):
    """model values that carry no information: opaque symbols and maps whose content was not read on the path"""
    if isinstance(x, str) and x.startswith('Opaque('):
        return True
    return isinstance(x, dict) and set(x) == {'__map__'}


def construct(cls, fields):
    """Real objects through their real constructors where that is possible, so that every field the
    symbolic path did not read has the value the real __init__ gives it; bare __new__ otherwise."""
    try:
        import h2.connection, h2.config
        if cls is h2.config.H2Configuration:
            cs = fields.get('client_side')
            return cls(client_side=cs if isinstance(cs, bool) else True)
        if cls is h2.connection.H2Connection:
            cfg = fields.get('config')
            return cls(config=build(cfg) if isinstance(cfg, dict) and '__class__' in cfg else None)
        if cls.__module__.startswith('h2.') and cls.__name__ in ('H2ConnectionStateMachine', 'FrameBuffer', 'Settings'):
            return cls()
    except Exception:
        pass
    return cls.__new__(cls)


def apply_fields(o, fields):
    for k, x in fields.items():
        if is_placeholder(x):
            continue
        try:
            cur = getattr(o, k, None) if k in getattr(o, '__dict__', {}) else None
            if isinstance(x, dict) and '__class__' in x and cur is not None and type(cur) is resolve(x['__class__']):
                apply_fields(cur, x['fields'])      # keep the really-constructed sub-object, overwrite what the model fixes
            else:
                object.__setattr__(o, k, build(x))
        except Exception:
            pass


def decode_z3_string(s):
    import re
    return re.sub(r'\\u\{([0-9a-fA-F]+)\}', lambda m: chr(int(m.group(1), 16)), s)


def enums():
    import h2.errors, h2.settings, h2.stream, h2.connection
    return {'ErrorCodes': h2.errors.ErrorCodes, 'SettingCodes': h2.settings.SettingCodes,
            'StreamState': h2.stream.StreamState, 'StreamInputs': h2.stream.StreamInputs,
            'StreamClosedBy': h2.stream.StreamClosedBy, 'ConnectionState': h2.connection.ConnectionState,
            'ConnectionInputs': h2.connection.ConnectionInputs, 'AllowedStreamIDs': h2.connection.AllowedStreamIDs}


ENUMS = {}
BUILDERS = {}


class OldCollector(ast.NodeTransformer):
    def __init__(self):
        self.olds = []

    def visit_Call(self, node):
        if isinstance(node.func, ast.Name) and node.func.id == 'implies' and len(node.args) == 2:
            a, b = self.visit(node.args[0]), self.visit(node.args[1])
            return ast.BoolOp(op=ast.Or(), values=[ast.UnaryOp(op=ast.Not(), operand=a), b])
        if isinstance(node.func, ast.Name) and node.func.id == 'old':
            self.olds.append(node.args[0])
            return ast.Name(id='__old_%d' % (len(self.olds) - 1), ctx=ast.Load())
        return self.generic_visit(node)


def main():
    global ENUMS
    rec = json.load(open(sys.argv[1]))
    ENUMS = enums()
    try:
        sys.path.insert(0, os.path.join(ROOT, 'replay'))
        import builders
        BUILDERS.update(builders.BUILDERS)
    except ImportError:
        pass
    fn = rec['function']
    w = rec.get('witness')
    if not w or 'error' in w:
        print('no witness to replay')
        return 0
    env = {k: getattr(specfns, k) for k in dir(specfns) if not k.startswith('__')}
    env.update(implies=implies, iff=iff, ite=ite)
    vals = {k: build(v) for k, v in w.items()}
    env.update(vals)
    target = resolve(fn)
    parts = fn.split('.')
    is_setter = parts[-1] == 'setter'
    if is_setter:
        target = resolve('.'.join(parts[:-1]))
    import inspect
    if isinstance(target, property):
        call = (lambda **kw: target.fset(**kw)) if is_setter else (lambda **kw: target.fget(**kw))
        params = list(inspect.signature(target.fset if is_setter else target.fget).parameters)
    else:
        call = target
        params = list(inspect.signature(target).parameters)
    # let-bindings and requires are evaluated in the pre-state
    for name, expr in (rec.get('let') or {}).items():
        env[name] = eval(expr, env)
    for r in rec.get('requires', []):
        try:
            if not eval(r, dict(env)):
                print('witness does not satisfy requires: %s (model of an abstracted pre-state)' % r)
                return 0
        except Exception as e:
            print('requires not evaluable natively: %s (%r)' % (r, e))
    kind = rec['kind']
    clause = rec['clause']
    oc = OldCollector()
    tree = None
    if kind in ('ensures', 'on_raise', 'modifies', 'raises-ensures'):
        tree = oc.visit(ast.parse(clause, mode='eval'))
        ast.fix_missing_locations(tree)
    upd = {}
    gu = rec.get('ghost_update') or {}
    for i, o in enumerate(oc.olds):
        env['__old_%d' % i] = copy.deepcopy(eval(compile(ast.Expression(o), '<old>', 'eval'), dict(env)))
    pre_env = copy.deepcopy({k: v for k, v in env.items() if k in vals})
    kwargs = {p: env[p] for p in params if p in env}
    outcome = None
    try:
        result = call(**kwargs)
        if inspect.isgenerator(result):
            result = list(result)
        outcome = ('return', result)
    except Exception as e:
        outcome = ('raise', e)
    print('call %s(%s) -> %s %r' % (fn, ', '.join('%s=%r' % (k, v) for k, v in kwargs.items() if k != 'self'),
                                  outcome[0], outcome[1]))
    if kind in ('raises-only', 'raises-when', 'raises-iff'):
        if kind == 'raises-only':
            if outcome[0] == 'raise':
                names = [c.__name__ for c in type(outcome[1]).__mro__]
                if not any(d.split('.')[-1] in names for d in rec.get('declared_raises', [])):
                    print('CONFIRMED: undeclared exception %s escapes' % type(outcome[1]).__name__)
                    return 1
            return 0
        if kind == 'raises-iff':
            # clause: normal exit implies not(cond): violated iff normal exit
            if outcome[0] == 'return':
                print('CONFIRMED: call returned normally although the raise condition held')
                return 1
            return 0
        if kind == 'raises-when':
            if outcome[0] == 'raise':
                print('CONFIRMED: exception raised outside its declared condition')
                return 1
            return 0
    if kind in ('ensures', 'modifies') and outcome[0] != 'return':
        print('path not reproduced (call raised)')
        return 0
    if kind in ('on_raise', 'raises-ensures') and outcome[0] != 'raise':
        print('path not reproduced (call returned)')
        return 0
    if outcome[0] == 'return':
        env['result'] = outcome[1]
        oenv = dict(env)
        for g, expr in gu.items():
            tr = OldCollector()
            t2 = tr.visit(ast.parse(expr, mode='eval'))
            ast.fix_missing_locations(t2)
            e2 = dict(env)
            for i, o in enumerate(tr.olds):
                e2['__old_%d' % i] = eval(compile(ast.Expression(o), '<old>', 'eval'), dict(pre_env, **{k: v for k, v in env.items() if k not in pre_env}))
            upd[g] = eval(compile(t2, '<gu>', 'eval'), e2)
        env.update(upd)
    else:
        env['exc'] = outcome[1]
    try:
        ok = eval(compile(tree, '<clause>', 'eval'), env)
    except Exception as e:
        print('clause not evaluable natively: %r' % e)
        return 0
    print('clause %r -> %r' % (clause, bool(ok)))
    if not ok:
        print('CONFIRMED on the real code')
        return 1
    return 0


if __name__ == '__main__':
    try:
        sys.exit(main())
    except SystemExit:
        raise
    except Exception:
        import traceback
        traceback.print_exc()
        sys.exit(3)
