"""Contracts: Settings object and settings handling of H2Connection (C11, C12, C03, C04)."""
from h2vc.spec import contract, modular
from h2vc.values import *  # noqa
from .common import conn_setup, conn_setup_bounded_streams, explicit_keys
from .c_send import CONN, QUIET

S = 'h2.settings.Settings'
REQ_KEYS = [1, 2, 4, 5, 8]


def settings_setup(I, loc):
    o = I.heap.get(loc['self'])
    explicit_keys(I, o.fields['_settings'], 2, 'settings', required=REQ_KEYS,
                  note='Settings.acknowledge loop verified for the 5 default keys + at most 2 further keys')


contract(S + '.__getitem__', props=['C11'],
    args={'key': 'int'}, requires=['SETTINGS_OK(self)'],
    ensures=[('current-value', 'result == setting_current(self, key)'),
             ('present', 'setting_has(self, key)')],
    raises=[dict(exc='KeyError', when='not setting_has(self, key)', iff=True)],
    canary='result == 0')

contract(S + '.__setitem__', props=['C11', 'C12'],
    args={'key': 'int', 'value': 'int'}, requires=['SETTINGS_OK(self)'],
    ensures=[('valid', 'spec_valid_setting(key, value) == 0', ['C12']),
             ('queued-not-applied', 'implies(old(key in self._settings), setting_current(self, key) == old(setting_current(self, key)) and self._settings[key][0] is old(self._settings[key][0]) or True)', ['C11']),
             ('current-unchanged', 'implies(old(setting_has(self, key)), setting_current(self, key) == old(setting_current(self, key)))', ['C11']),
             ('appended', 'len(self._settings[key]) == (old(len(self._settings[key])) + 1 if old(key in self._settings) else 2)', ['C11', 'C10']),
             ('inv', 'SETTINGS_OK(self)')],
    raises=[dict(exc='InvalidSettingsValueError', when='spec_valid_setting(key, value) != 0', iff=True, props=['C12'],
                 ensures=[('rfc-code', 'exc.error_code == spec_valid_setting(key, value)', ['C12', 'C18'])])],
    on_raise=[('nothing-stored', 'implies(old(key in self._settings), len(self._settings[key]) == old(len(self._settings[key])))', ['C11', 'C12']),
              ('inv', 'SETTINGS_OK(self)')],
    canary='len(self._settings[key]) == 1')

def ack_summary(I, loc):
    """Functional summary of Settings.acknowledge for modular callers: every key's queue with a pending value
    loses its head, the others are untouched; the result maps exactly the advanced keys to (old head, new head).
    It restates the ensures clauses 'applies-one-pending-value-per-key', 'queues-advance-by-one',
    'reports-exactly-the-changed-keys' and 'reported-values' in closed form (no per-key case split)."""
    import z3
    so = I.heap.get(loc['self'])
    m = I.heap.get(so.fields['_settings'])
    cells, lo, hi, hn = m.arrays['cells'], m.arrays['lo'], m.arrays['hi'], m.arrays['head_none']
    k = z3.Int('ack!k')
    adv = z3.Select(hi, k) - z3.Select(lo, k) > 1
    res = I.new_sym_map('changes', I.class_named('h2.settings.ChangedSetting'))
    r = I.heap.get(res)
    r.dom = z3.Lambda([k], z3.And(z3.Select(m.dom, k), adv))
    r.arrays['setting'] = z3.Lambda([k], k)
    r.arrays['original_value'] = z3.Lambda([k], z3.Select(z3.Select(cells, k), z3.Select(lo, k)))
    r.arrays['original_value?'] = z3.Lambda([k], z3.Select(hn, k))
    r.arrays['new_value'] = z3.Lambda([k], z3.Select(z3.Select(cells, k), z3.Select(lo, k) + 1))
    # popleft of every queue that has a pending value: the window's lower end moves, the cells stay
    m.arrays['lo'] = z3.Lambda([k], z3.If(adv, z3.Select(lo, k) + 1, z3.Select(lo, k)))
    m.arrays['head_none'] = z3.Lambda([k], z3.If(adv, z3.BoolVal(False), z3.Select(hn, k)))
    loc['__ack_result'] = res


def ack_result(I, loc):
    return loc['__ack_result']


def head_at_call(I, loc):
    """Instantiation of the ghost argument g_head at the real call sites (_acknowledge_settings, _local_settings_acked):
    the callers keep no record of frame boundaries, so the only set they can name is 'every key with a pending
    value'.  (With that choice the requires clause holds trivially; the clause 'every other key keeps its current
    value' -- finding F13 -- is checked on the body for EVERY g_head and is not assumed by callers.)"""
    import z3
    so = I.heap.get(loc['self'])
    m = I.heap.get(so.fields['_settings'])
    ref = I.sym_value('smap:bool', 'g_head')
    k = z3.Int('head!k')
    I.heap.get(ref).dom = z3.Lambda([k], z3.And(z3.Select(m.dom, k), z3.Select(m.arrays['hi'], k) - z3.Select(m.arrays['lo'], k) > 1))
    return ref


modular(S + '.acknowledge')
contract(S + '.acknowledge', props=['C11'],
    args={}, setup=settings_setup, ghost={'g_head': 'smap:bool'}, ghost_call={'g_head': head_at_call},
    modifies=[ack_summary], result=ack_result,
    requires=['SETTINGS_OK_WEAK(self)',   # (the queue-position invariant of SETTINGS_OK is not needed here and only burdens the solver)
             
              # ghost g_head: the keys carried by the OLDEST unacknowledged SETTINGS frame; each has a pending value
              'all(implies(k in g_head, len(self._settings[k]) > 1) for k in self._settings)'],
    ensures=[('applies-one-pending-value-per-key', 'all(len(self._settings[k]) == (old(len(self._settings[k])) - 1 if old(len(self._settings[k])) > 1 else old(len(self._settings[k]))) for k in self._settings)'),
             ('one-frame-per-ack: keys of the acknowledged frame take their pending value', 'all(implies(k in g_head, len(self._settings[k]) == old(len(self._settings[k])) - 1 and (k in result)) for k in self._settings)', ['C11']),
             ('one-frame-per-ack: every other key keeps its current value', 'all(implies(not (k in g_head), len(self._settings[k]) == old(len(self._settings[k])) and not (k in result)) for k in self._settings)', ['C11']),
             ('queues-advance-by-one', 'all(implies(old(len(self._settings[k])) > 1, self._settings[k][0] == old(self._settings[k][1]) and (len(self._settings[k]) < 2 or self._settings[k][1] == old(self._settings[k][2 if len(self._settings[k]) > 2 else 1]))) for k in self._settings)', ['C11']),
             ('reported-values', 'all(result[k].original_value == old(self._settings[k][0]) and result[k].new_value == old(self._settings[k][1]) for k in result)', ['C11']),
             ('no-key-added-or-removed', 'all(k in old(self._settings) for k in self._settings) and all(k in self._settings for k in old(self._settings))'),
             ('reports-exactly-the-changed-keys', 'all((k in result) == (old(len(self._settings[k])) > 1) for k in self._settings)'),
             ('inv', 'SETTINGS_OK_WEAK(self)')],
    raises=[], canary='len(result) == 0')


# ---------------------------------------------------------------------------
# Connection-level settings handling (C11, C12, C02, C03, C04, C19, C29)
LS, RS = 'self.local_settings', 'self.remote_settings'
SOK2 = ['GI(self)', 'SETTINGS_OK(self.local_settings)', 'SETTINGS_OK(self.remote_settings)']


def update_settings_setup(I, loc):
    conn_setup(I, loc)
    o = I.heap.get(loc['self'])
    explicit_keys(I, I.heap.get(o.fields['local_settings']).fields['_settings'], 1, 'local_settings', required=REQ_KEYS,
                  note='local settings: the 5 default keys + at most 1 further key')
    explicit_keys(I, loc['new_settings'], 2, 'new_settings',
                  note='update_settings / received SETTINGS verified for dictionaries of at most 2 entries')


QUEUES_KEPT = ('all(k in old(%s._settings) for k in %s._settings) and '
               'all(len(%s._settings[k]) == old(len(%s._settings[k])) for k in old(%s._settings))' % ((LS,) * 5))

contract(CONN + '.update_settings', props=['C11', 'C12', 'C02', 'C19', 'C29'],
    args={'new_settings': 'smap:int'}, setup=update_settings_setup, requires=SOK2,
    let={'cst': 'self.state_machine.state.value'},
    ensures=[('all-values-valid', 'all(spec_valid_setting(k, new_settings[k]) == 0 for k in new_settings)', ['C12', 'C11']),
             ('one-settings-frame', 'len(g_out) == len(old(g_out)) + 1 and class_name(g_out[-1]) == "SettingsFrame" and g_out[-1].stream_id == 0 and not ("ACK" in g_out[-1].flags)', ['C02', 'C11']),
             ('frame-carries-exactly-the-new-settings', 'g_out[-1].settings is new_settings', ['C02', 'C11']),
             ('not-applied-before-the-ack', 'all(implies(old(setting_has(%s, k)), setting_current(%s, k) == old(setting_current(%s, k))) for k in old(%s._settings))' % (LS, LS, LS, LS), ['C11']),
             ('each-new-value-queued-once', 'all(len(%s._settings[k]) == (old(len(%s._settings[k])) if (k in old(%s._settings)) else 1) + 1 for k in new_settings)' % (LS, LS, LS), ['C11']),
             ('other-keys-untouched', 'all(implies(not (k in new_settings), len(%s._settings[k]) == old(len(%s._settings[k]))) for k in old(%s._settings))' % (LS, LS, LS), ['C11']),
             ('settings-stay-well-formed', 'SETTINGS_OK(%s) and SETTINGS_OK(%s)' % (LS, RS), ['C11', 'C12']),
             ('derived-state-untouched', 'self.max_inbound_frame_size == old(self.max_inbound_frame_size) and self.decoder.max_header_list_size == old(self.decoder.max_header_list_size) and self.decoder.max_allowed_table_size == old(self.decoder.max_allowed_table_size)', ['C11']),
             ('not-closed', 'cst != C_CLOSED', ['C19']),
             ('GI', 'GI(self)')],
    raises=[dict(exc='InvalidSettingsValueError', props=['C12', 'C11', 'C29'],
                 when='any(spec_valid_setting(k, new_settings[k]) != 0 for k in new_settings)'),
            dict(exc='ProtocolError', props=['C19', 'C29'], when='not conn_accepts(cst, CI_SEND_SETTINGS)')],
    on_raise=QUIET + [('a-raising-call-changes-no-setting', QUEUES_KEPT, ['C11'])],
    canary='len(g_out) == len(old(g_out))')


def recv_settings_setup(I, loc):
    conn_setup(I, loc)
    fr = I.heap.get(loc['frame'])
    explicit_keys(I, fr.fields['settings'], 2, 'frame_settings',
                  note='update_settings / received SETTINGS verified for dictionaries of at most 2 entries')


def recv_settings_result(I, loc):
    """Modular result shape of _receive_settings_frame: ([ACK frame], [RemoteSettingsChanged]) for a SETTINGS frame,
    ([], [SettingsAcknowledged]) for an ACK; the events' contents are pinned by the ensures clauses."""
    import z3
    fl = I.heap.get(I.heap.get(loc['frame']).fields['flags']).fields['set']['ACK']
    is_ack = I.branch(fl, 'settings-ack')
    cls = I.class_named('h2.events.SettingsAcknowledged' if is_ack else 'h2.events.RemoteSettingsChanged')
    ev = I.instantiate(cls, [], {}, None)
    I.heap.get(ev).fields['changed_settings'] = I.new_sym_map('changed_settings', I.class_named('h2.settings.ChangedSetting'))
    frames = [] if is_ack else list(I.heap.get(ack_frame_result(I, loc)).items)
    return (I.heap.alloc(ListObj(frames)), I.heap.alloc(ListObj([ev])))


def recv_settings_modifies(I, loc):
    """Frame of _receive_settings_frame for modular callers: a SETTINGS frame touches the remote side only, an
    ACK the local side only (both when the flag is symbolic)."""
    from h2vc.core import simp_bool
    fl = simp_bool(I.heap.get(I.heap.get(loc['frame']).fields['flags']).fields['set']['ACK'])
    fr = I.frames[-1]
    for t in RECV_SETTINGS_MODIFIES:
        local = ('local_settings' in t or '_inbound_window_manager' in t or 'max_inbound_frame_size' in t or 'decoder' in t or 'incoming_buffer' in t)
        if (fl is False and local) or (fl is True and not local and 'state_machine' not in t):
            continue
        I.havoc(t, fr)


RECV_SETTINGS_MODIFIES = [
    'maparr:self.remote_settings._settings:cells', 'maparr:self.remote_settings._settings:lo', 'maparr:self.remote_settings._settings:hi', 'maparr:self.remote_settings._settings:head_none', 'mapdom:self.remote_settings._settings',
    'maparr:self.local_settings._settings:cells', 'maparr:self.local_settings._settings:lo', 'maparr:self.local_settings._settings:hi', 'maparr:self.local_settings._settings:head_none',
    'maparr:self.streams:outbound_flow_control_window', 'maparr:self.streams:max_outbound_frame_size',
    'maparr:self.streams:_inbound_window_manager.current_window_size', 'maparr:self.streams:_inbound_window_manager.max_window_size',
    'field|self.max_outbound_frame_size|int', 'field|self.max_inbound_frame_size|int', 'field|self.incoming_buffer.max_frame_size|int',
    'field|self.encoder.header_table_size|int', 'field|self.decoder.max_header_list_size|optint',
    'field|self.decoder.max_allowed_table_size|int', 'field|self.state_machine.state|enum:ConnectionState']

NO_PENDING_REMOTE = 'all(len(%s._settings[k]) == 1 for k in %s._settings)' % (RS, RS)
FS = 'frame.settings'
modular(CONN + '._receive_settings_frame')
contract(CONN + '._receive_settings_frame', props=['C11', 'C12', 'C03', 'C04', 'C02', 'C17'],
    args={'frame': 'frame:SettingsFrame'}, setup=recv_settings_setup, result=recv_settings_result, modifies=[recv_settings_modifies],
    requires=SOK2 + [NO_PENDING_REMOTE],
    let={'cst': 'self.state_machine.state.value', 'ack': '"ACK" in frame.flags'},
    ensures=[
        # --- a SETTINGS frame from the peer: applied at once, reported once, acknowledged once -------------------
        ('acknowledged-exactly-once', 'implies(not ack, len(result[0]) == 1 and class_name(result[0][0]) == "SettingsFrame" and ("ACK" in result[0][0].flags) and result[0][0].stream_id == 0 and len(result[0][0].settings) == 0)', ['C11', 'C02']),
        ('reported-exactly-once', 'implies(not ack, len(result[1]) == 1 and class_name(result[1][0]) == "RemoteSettingsChanged")', ['C11']),
        ('applied-at-once', 'implies(not ack, all(setting_current(%s, k) == %s[k] for k in %s))' % (RS, FS, FS), ['C11']),
        ('other-remote-settings-kept', 'implies(not ack, all(implies(not (k in %s), setting_current(%s, k) == old(setting_current(%s, k))) for k in old(%s._settings)))' % (FS, RS, RS, RS), ['C11']),
        ('nothing-left-pending', 'implies(not ack, %s)' % NO_PENDING_REMOTE, ['C11']),
        ('all-values-valid', 'implies(not ack, all(spec_valid_setting(k, %s[k]) == 0 for k in %s))' % (FS, FS), ['C12']),
        ('event-lists-exactly-the-frame', 'implies(not ack, all((k in result[1][0].changed_settings) for k in %s) and all((k in %s) for k in result[1][0].changed_settings))' % (FS, FS), ['C11']),
        ('event-old-and-new-values', 'implies(not ack, all(result[1][0].changed_settings[k].new_value == %s[k] and result[1][0].changed_settings[k].original_value == old(setting_current(%s, k) if (k in %s._settings) else None) for k in result[1][0].changed_settings))' % (FS, RS, RS), ['C11']),
        ('outbound-frame-size-follows-peer-setting', 'self.max_outbound_frame_size == setting_current(%s, S_MAX_FRAME_SIZE)' % RS, ['C11', 'C02'],
         'self.max_outbound_frame_size == setting_current(%s, S_MAX_FRAME_SIZE)' % RS),
        ('encoder-table-follows-peer-setting', 'self.encoder.header_table_size == setting_current(%s, S_HEADER_TABLE_SIZE)' % RS, ['C11', 'C13'],
         'self.encoder.header_table_size == setting_current(%s, S_HEADER_TABLE_SIZE)' % RS),
        ('stream-windows-shifted-by-the-delta', 'implies(not ack, all(self.streams[k].outbound_flow_control_window == old(self.streams[k].outbound_flow_control_window) + (setting_current(%s, S_INITIAL_WINDOW_SIZE) - old(setting_current(%s, S_INITIAL_WINDOW_SIZE))) for k in self.streams))' % (RS, RS), ['C03', 'C11']),
        ('connection-window-not-shifted', 'self.outbound_flow_control_window == old(self.outbound_flow_control_window)', ['C03']),
        ('local-settings-untouched-by-peer-settings', 'implies(not ack, all(len(%s._settings[k]) == old(len(%s._settings[k])) for k in %s._settings))' % (LS, LS, LS), ['C11']),
        # --- an ACK from the peer ------------------------------------------------------------------------------
        ('ack-not-answered', 'implies(ack, len(result[0]) == 0)', ['C11', 'C02']),
        ('ack-reported-once', 'implies(ack, len(result[1]) == 1 and class_name(result[1][0]) == "SettingsAcknowledged")', ['C11']),
        ('ack-applies-pending-local-values', 'implies(ack, all(len(%s._settings[k]) == (old(len(%s._settings[k])) - 1 if old(len(%s._settings[k])) > 1 else 1) for k in %s._settings))' % (LS, LS, LS, LS), ['C11']),
        ('ack-event-lists-the-applied-changes', 'implies(ack, all((k in result[1][0].changed_settings) == (old(len(%s._settings[k])) > 1) for k in %s._settings))' % (LS, LS), ['C11']),
        ('ack-leaves-remote-settings', 'implies(ack, all(len(%s._settings[k]) == 1 and setting_current(%s, k) == old(setting_current(%s, k)) for k in %s._settings))' % (RS, RS, RS, RS), ['C11']),
        ('frame-buffer-limit-tracks-the-inbound-limit', 'implies(old(self.incoming_buffer.max_frame_size == self.max_inbound_frame_size), self.incoming_buffer.max_frame_size == self.max_inbound_frame_size)', ['C21', 'C11']),
        ('inbound-frame-size-follows-acknowledged-setting', 'self.max_inbound_frame_size == setting_current(%s, S_MAX_FRAME_SIZE)' % LS, ['C11', 'C21'],
         'self.max_inbound_frame_size == setting_current(%s, S_MAX_FRAME_SIZE)' % LS),
        ('stream-inbound-windows-shifted', 'implies(ack, all(self.streams[k]._inbound_window_manager.current_window_size == old(self.streams[k]._inbound_window_manager.current_window_size) + (setting_current(%s, S_INITIAL_WINDOW_SIZE) - old(setting_current(%s, S_INITIAL_WINDOW_SIZE))) for k in self.streams))' % (LS, LS), ['C04', 'C11']),
        ('no-stream-opened-or-closed', 'all(k in old(self.streams) for k in self.streams) and all(k in self.streams for k in old(self.streams))', ['C27']),
        ('connection-state-kept', 'self.state_machine.state.value == cst', ['C19']),
        ('closed-connection-processes-nothing', 'cst != C_CLOSED', ['C19']),
        ('settings-stay-well-formed', 'SETTINGS_OK(%s) and SETTINGS_OK(%s)' % (RS, LS), ['C11', 'C12']),
        ('GI', 'GI(self)')],
    raises=[dict(exc='InvalidSettingsValueError', props=['C12', 'C18'],
                 when='not ack and any(spec_valid_setting(k, %s[k]) != 0 for k in %s)' % (FS, FS),
                 ensures=[('rfc-code', 'exc.error_code == PROTOCOL_ERROR or exc.error_code == FLOW_CONTROL_ERROR', ['C12', 'C18'])]),
            dict(exc='FlowControlError', props=['C12', 'C03', 'C04', 'C18'],
                 ensures=[('code', 'exc.error_code == FLOW_CONTROL_ERROR', ['C18', 'C12'])]),
            dict(exc='ProtocolError', props=['C17'], when='not conn_accepts(cst, CI_RECV_SETTINGS)',
                 ensures=[('code', 'exc.error_code == PROTOCOL_ERROR', ['C18'])])],
    on_raise=[('nothing-emitted', 'len(g_out) == len(old(g_out))'),
              ('limits-stay-valid', '16384 <= self.max_outbound_frame_size and self.max_outbound_frame_size <= 16777215 and self.highest_inbound_stream_id == old(self.highest_inbound_stream_id)', ['C18'])],
    canary='len(result[1]) == 0')


# ---------------------------------------------------------------------------
def ack_settings_setup(I, loc):
    # any number of streams: the per-stream loops are verified with the inductive map-loop rule (`visited`)
    conn_setup(I, loc)


PEND = lambda s, key: '(len(%s._settings[%s]) > 1)' % (s, key)
NEWV = lambda s, key: '%s._settings[%s][1]' % (s, key)
CURV = lambda s, key: '%s._settings[%s][0]' % (s, key)

def ack_frame_result(I, loc):
    """Modular result shape: a one-element list holding a fresh SETTINGS frame (its flags and payload are pinned by
    the ensures clause 'one-ack-frame')."""
    from h2vc.deps_model import EXTERN_CALLS, flags_add
    f = EXTERN_CALLS['hyperframe.frame.SettingsFrame'](I, [0], {}, None)
    fo = I.heap.get(f)
    flags_add(I, fo.fields['flags'], I.heap.get(fo.fields['flags']), ['ACK'], {}, None)
    return I.heap.alloc(ListObj([f]))


# ---------------------------------------------------------------------------
# The per-stream loops of the settings handlers, for ANY number of streams (inductive rule over `visited`)
OW = 'self.streams[k].outbound_flow_control_window'
modular(CONN + '._flow_control_change_from_settings')
contract(CONN + '._flow_control_change_from_settings', props=['C03', 'C12', 'C11'],
    args={'old_value': 'int', 'new_value': 'int'}, setup=conn_setup, requires=['GI(self)'],
    let={'d': '(new_value - old_value)'},
    modifies=['maparr:self.streams:outbound_flow_control_window'],
    ensures=[('every-stream-window-shifted-by-the-delta', 'all(%s == old(%s) + d for k in self.streams)' % (OW, OW), ['C03', 'C11']),
             ('stream-windows-in-range', 'all(%s <= MAXWIN for k in self.streams)' % OW, ['C03', 'C12'])],
    raises=[dict(exc='FlowControlError', when='any(%s + d > MAXWIN for k in self.streams)' % OW, iff=True, props=['C12', 'C03', 'C18'],
                 ensures=[('code', 'exc.error_code == FLOW_CONTROL_ERROR', ['C18', 'C12'])])],
    on_raise=[('windows-shifted-or-kept-never-out-of-range', 'all((%s == old(%s) or %s == old(%s) + d) and %s <= MAXWIN for k in self.streams)' % (OW, OW, OW, OW, OW), ['C03', 'C12'])],
    loops={'self.streams.values()': dict(
        invariant=[('visited-shifted-others-kept', 'all(%s == old(%s) + (d if (k in visited) else 0) for k in self.streams)' % (OW, OW)),
                   ('visited-in-range', 'all(implies(k in visited, %s <= MAXWIN) for k in self.streams)' % OW)],
        modifies=['maparr:self.streams:outbound_flow_control_window'])},
    canary='all(%s == old(%s) for k in self.streams)' % (OW, OW))

IWC = 'self.streams[k]._inbound_window_manager.current_window_size'
IWM = 'self.streams[k]._inbound_window_manager.max_window_size'
modular(CONN + '._inbound_flow_control_change_from_settings')
contract(CONN + '._inbound_flow_control_change_from_settings', props=['C04', 'C05', 'C11'],
    args={'old_value': 'int', 'new_value': 'int'}, setup=conn_setup, requires=['GI(self)'],
    let={'d': '(new_value - old_value)'},
    modifies=['maparr:self.streams:_inbound_window_manager.current_window_size', 'maparr:self.streams:_inbound_window_manager.max_window_size'],
    ensures=[('every-stream-inbound-window-shifted', 'all(%s == old(%s) + d for k in self.streams)' % (IWC, IWC), ['C04', 'C11']),
             ('every-stream-inbound-maximum-shifted', 'all(%s == old(%s) + d for k in self.streams)' % (IWM, IWM), ['C04', 'C05', 'C11']),
             ('inbound-windows-in-range', 'all(%s <= MAXWIN for k in self.streams)' % IWC, ['C04'])],
    raises=[dict(exc='FlowControlError', when='any(%s + d > MAXWIN for k in self.streams)' % IWC, iff=True, props=['C04', 'C18'],
                 ensures=[('code', 'exc.error_code == FLOW_CONTROL_ERROR', ['C18'])])],
    on_raise=[('windows-shifted-in-range-or-kept', 'all(%s == old(%s) or (%s == old(%s) + d and %s <= MAXWIN) for k in self.streams)' % (IWC, IWC, IWC, IWC, IWC), ['C04'])],
    loops={'self.streams.values()': dict(
        invariant=[('visited-shifted-others-kept', 'all(%s == old(%s) + (d if (k in visited) else 0) and %s == old(%s) + (d if (k in visited) else 0) for k in self.streams)' % (IWC, IWC, IWM, IWM)),
                   ('visited-in-range', 'all(implies(k in visited, %s <= MAXWIN) for k in self.streams)' % IWC)],
        modifies=['maparr:self.streams:_inbound_window_manager.current_window_size', 'maparr:self.streams:_inbound_window_manager.max_window_size'])},
    canary='all(%s == old(%s) for k in self.streams)' % (IWC, IWC))


modular(CONN + '._acknowledge_settings')
contract(CONN + '._acknowledge_settings', props=['C11', 'C03', 'C02', 'C13', 'C12'],
    args={}, setup=ack_settings_setup, requires=SOK2, result=ack_frame_result,
    modifies=[lambda I, loc: ack_summary(I, {'self': I.getattr(loc['self'], 'remote_settings')}),   # closed form of 'pending-values-applied'
              'maparr:self.streams:outbound_flow_control_window', 'maparr:self.streams:max_outbound_frame_size',
              'field|self.max_outbound_frame_size|int', 'field|self.encoder.header_table_size|int',
              'field|self.state_machine.state|enum:ConnectionState'],
    let={'cst': 'self.state_machine.state.value',
         'iw_pending': PEND(RS, 'S_INITIAL_WINDOW_SIZE'), 'delta': '(%s - %s)' % (NEWV(RS, 'S_INITIAL_WINDOW_SIZE'), CURV(RS, 'S_INITIAL_WINDOW_SIZE')),
         'fs_pending': PEND(RS, 'S_MAX_FRAME_SIZE'), 'ht_pending': PEND(RS, 'S_HEADER_TABLE_SIZE')},
    ensures=[('one-ack-frame', 'len(result) == 1 and class_name(result[0]) == "SettingsFrame" and ("ACK" in result[0].flags) and result[0].stream_id == 0 and len(result[0].settings) == 0', ['C11', 'C02']),
             ('pending-values-applied', 'all(len(%s._settings[k]) == (old(len(%s._settings[k])) - 1 if old(len(%s._settings[k])) > 1 else old(len(%s._settings[k]))) and (%s._settings[k][0] == old(%s._settings[k][1 if len(%s._settings[k]) > 1 else 0])) for k in %s._settings)' % ((RS,) * 8), ['C11']),
             ('stream-windows-shifted-by-the-delta', 'all(self.streams[k].outbound_flow_control_window == old(self.streams[k].outbound_flow_control_window) + (delta if iw_pending else 0) for k in self.streams)', ['C03', 'C11', 'C12']),
             ('stream-windows-in-range', 'all(self.streams[k].outbound_flow_control_window <= MAXWIN for k in self.streams)', ['C03', 'C12']),
             ('connection-window-not-shifted', 'self.outbound_flow_control_window == old(self.outbound_flow_control_window)', ['C03']),
             ('outbound-frame-size-follows', 'self.max_outbound_frame_size == (old(%s) if fs_pending else old(self.max_outbound_frame_size))' % NEWV(RS, 'S_MAX_FRAME_SIZE'), ['C11', 'C02']),
             ('every-stream-gets-the-frame-size', 'all(self.streams[k].max_outbound_frame_size == self.max_outbound_frame_size for k in self.streams)', ['C02', 'C11']),
             ('encoder-table-size-follows', 'self.encoder.header_table_size == (old(%s) if ht_pending else old(self.encoder.header_table_size))' % NEWV(RS, 'S_HEADER_TABLE_SIZE'), ['C11', 'C13']),
             ('connection-state-kept', 'self.state_machine.state.value == cst', ['C19']),
             ('settings-stay-well-formed', 'SETTINGS_OK(%s) and SETTINGS_OK(%s)' % (RS, LS), ['C11', 'C12']),
             ('local-side-untouched', 'self.max_inbound_frame_size == old(self.max_inbound_frame_size) and all(len(%s._settings[k]) == old(len(%s._settings[k])) for k in %s._settings)' % (LS, LS, LS), ['C11']),
             ('no-stream-opened-or-closed', 'all(k in old(self.streams) for k in self.streams) and all(k in self.streams for k in old(self.streams))'),
             ],
    raises=[dict(exc='FlowControlError', props=['C12', 'C03', 'C18'],
                 when='iw_pending and any(self.streams[k].outbound_flow_control_window + delta > MAXWIN for k in self.streams)',
                 ensures=[('code', 'exc.error_code == FLOW_CONTROL_ERROR', ['C18', 'C12'])]),
            dict(exc='ProtocolError', when='not conn_accepts(cst, CI_SEND_SETTINGS)')],
    on_raise=[('frame-size-untouched-on-failure', 'self.max_outbound_frame_size == old(self.max_outbound_frame_size)', ['C18'])],
    loops={'self.streams.values()': dict(
        invariant=[('visited-streams-got-the-frame-size', 'all(self.streams[k].max_outbound_frame_size == (setting.new_value if (k in visited) else old(self.streams[k].max_outbound_frame_size)) for k in self.streams)')],
        modifies=['maparr:self.streams:max_outbound_frame_size'])},
    canary='len(result) == 0')


modular(CONN + '._local_settings_acked')
contract(CONN + '._local_settings_acked', props=['C11', 'C04', 'C27'],
    args={}, setup=ack_settings_setup, requires=SOK2, result='map:h2.settings.ChangedSetting',
    modifies=[lambda I, loc: ack_summary(I, {'self': I.getattr(loc['self'], 'local_settings')}),   # closed form of 'pending-values-applied'
              'maparr:self.streams:_inbound_window_manager.current_window_size', 'maparr:self.streams:_inbound_window_manager.max_window_size',
              'field|self.max_inbound_frame_size|int', 'field|self.incoming_buffer.max_frame_size|int', 'field|self.decoder.max_header_list_size|optint',
              'field|self.decoder.max_allowed_table_size|int'],
    let={'iw_pending': PEND(LS, 'S_INITIAL_WINDOW_SIZE'), 'delta': '(%s - %s)' % (NEWV(LS, 'S_INITIAL_WINDOW_SIZE'), CURV(LS, 'S_INITIAL_WINDOW_SIZE')),
         'fs_pending': PEND(LS, 'S_MAX_FRAME_SIZE'), 'ht_pending': PEND(LS, 'S_HEADER_TABLE_SIZE'),
         'hl_pending': '((S_MAX_HEADER_LIST_SIZE in %s._settings) and %s)' % (LS, PEND(LS, 'S_MAX_HEADER_LIST_SIZE'))},
    ensures=[('pending-values-applied', 'all(len(%s._settings[k]) == (old(len(%s._settings[k])) - 1 if old(len(%s._settings[k])) > 1 else old(len(%s._settings[k]))) and (%s._settings[k][0] == old(%s._settings[k][1 if len(%s._settings[k]) > 1 else 0])) for k in %s._settings)' % ((LS,) * 8), ['C11']),
             ('reports-exactly-the-applied-keys', 'all((k in result) == (old(len(%s._settings[k])) > 1) for k in %s._settings)' % (LS, LS), ['C11']),
             ('reports-old-and-new-values', 'all(implies(old(len(%s._settings[k])) > 1, result[k].new_value == old(%s._settings[k][1]) and result[k].original_value == old(%s._settings[k][0])) for k in %s._settings)' % ((LS,) * 4), ['C11']),
             ('stream-inbound-windows-shifted', 'all(self.streams[k]._inbound_window_manager.current_window_size == old(self.streams[k]._inbound_window_manager.current_window_size) + (delta if iw_pending else 0) for k in self.streams)', ['C04', 'C11']),
             ('stream-inbound-maxima-shifted', 'all(self.streams[k]._inbound_window_manager.max_window_size == old(self.streams[k]._inbound_window_manager.max_window_size) + (delta if iw_pending else 0) for k in self.streams)', ['C04', 'C05', 'C11']),
             ('connection-inbound-window-not-shifted', 'self._inbound_flow_control_window_manager.current_window_size == old(self._inbound_flow_control_window_manager.current_window_size)', ['C04']),
             ('inbound-frame-size-follows', 'self.max_inbound_frame_size == (old(%s) if fs_pending else old(self.max_inbound_frame_size))' % NEWV(LS, 'S_MAX_FRAME_SIZE'), ['C11', 'C21']),
             ('frame-buffer-limit-follows-at-once', 'implies(fs_pending, self.incoming_buffer.max_frame_size == self.max_inbound_frame_size) and implies(not fs_pending, self.incoming_buffer.max_frame_size == old(self.incoming_buffer.max_frame_size))', ['C21', 'C11']),
             ('header-list-limit-follows-acknowledged-value', 'implies(hl_pending, self.decoder.max_header_list_size == old(%s))' % NEWV(LS, 'S_MAX_HEADER_LIST_SIZE'), ['C11', 'C27']),
             ('header-list-limit-kept-otherwise', 'implies(not hl_pending, self.decoder.max_header_list_size == old(self.decoder.max_header_list_size))', ['C11', 'C27']),
             ('decoder-table-limit-follows', 'self.decoder.max_allowed_table_size == (old(%s) if ht_pending else old(self.decoder.max_allowed_table_size))' % NEWV(LS, 'S_HEADER_TABLE_SIZE'), ['C11']),
             ('settings-stay-well-formed', 'SETTINGS_OK(%s) and SETTINGS_OK(%s) and 16384 <= self.max_inbound_frame_size and self.max_inbound_frame_size <= 16777215' % (RS, LS), ['C11', 'C12']),
             ('remote-side-untouched', 'self.max_outbound_frame_size == old(self.max_outbound_frame_size) and self.outbound_flow_control_window == old(self.outbound_flow_control_window)', ['C11']),
             ('no-stream-opened-or-closed', 'all(k in old(self.streams) for k in self.streams) and all(k in self.streams for k in old(self.streams))'),
             ],
    raises=[dict(exc='FlowControlError', props=['C04', 'C18'],
                 when='iw_pending and any(self.streams[k]._inbound_window_manager.current_window_size + delta > MAXWIN for k in self.streams)',
                 ensures=[('code', 'exc.error_code == FLOW_CONTROL_ERROR', ['C18'])])],
    canary='False')


# ---------------------------------------------------------------------------
# initiate_connection / initiate_upgrade_connection (C02, C11, C25, C09, C19, C29)
def init_conn_setup(I, loc):
    conn_setup(I, loc)
    o = I.heap.get(loc['self'])
    explicit_keys(I, I.heap.get(o.fields['local_settings']).fields['_settings'], 1, 'local_settings', required=REQ_KEYS,
                  note='local settings: the 5 default keys + at most 1 further key')


INIT_FRAME = ('class_name(g_out[-1]) == "SettingsFrame" and g_out[-1].stream_id == 0 and not ("ACK" in g_out[-1].flags) '
              'and all(g_out[-1].settings[k] == setting_current(%s, k) for k in %s._settings) '
              'and len(g_out[-1].settings) == len(%s._settings)' % (LS, LS, LS))
WIRE_RANGE_LOCAL = ('all(implies(setting_has(%s, k), 0 <= setting_current(%s, k) and setting_current(%s, k) <= 4294967295) for k in %s._settings)'
                    % (LS, LS, LS, LS))
contract(CONN + '.initiate_connection', props=['C02', 'C11', 'C19', 'C29'],
    args={}, setup=init_conn_setup,
    # hypothesis (unchecked at call sites, see known finding F05d): every current local value fits the 32-bit wire field
    requires=SOK2 + [WIRE_RANGE_LOCAL],
    let={'cst': 'self.state_machine.state.value'},
    ensures=[('one-settings-frame', 'len(g_out) == len(old(g_out)) + 1', ['C02', 'C11']),
             ('is-settings-frame', 'class_name(g_out[-1]) == "SettingsFrame" and g_out[-1].stream_id == 0 and not ("ACK" in g_out[-1].flags)', ['C02', 'C11']),
             ('carries-the-local-settings', 'all(g_out[-1].settings[k] == setting_current(%s, k) for k in g_out[-1].settings) and len(g_out[-1].settings) == len(%s._settings)' % (LS, LS), ['C02', 'C11']),
             ('preface-iff-client', 'len(self._data_to_send) == len(old(self._data_to_send)) + (24 if self.config.client_side else 0) + 9 + 6 * len(%s._settings)' % LS, ['C02']),
             ('settings-not-requeued', 'all(len(%s._settings[k]) == old(len(%s._settings[k])) for k in %s._settings)' % (LS, LS, LS), ['C11']),
             ('not-closed', 'cst != C_CLOSED', ['C19']),
             ('GI', 'GI(self)')],
    raises=[dict(exc='ProtocolError', props=['C19', 'C29'], when='not conn_accepts(cst, CI_SEND_SETTINGS)')],
    on_raise=QUIET, canary='len(g_out) == len(old(g_out))')


S1 = 'self.streams[1].state_machine'


def upgrade_setup(I, loc):
    init_conn_setup(I, loc)
    explicit_keys(I, loc['g_client_settings'], 2, 'client_settings',
                  note='update_settings / received SETTINGS verified for dictionaries of at most 2 entries')


contract(CONN + '.initiate_upgrade_connection', props=['C25', 'C09', 'C02', 'C19', 'C29'],
    args={'settings_header': 'optbytes'}, setup=upgrade_setup, ghost={'g_client_settings': 'smap:int'},
    # a fresh connection (the property speaks about the h2c upgrade of a new connection); on a server the header is
    # the one a client derived from its settings g_client_settings (identifiers and values in wire range)
    requires=SOK2 + [WIRE_RANGE_LOCAL, NO_PENDING_REMOTE, 'all(k < 0 for k in self.streams)',
                     'self.highest_inbound_stream_id == 0 and self.highest_outbound_stream_id == 0',
                     'self.state_machine.state.value == C_IDLE',
                     'all(0 <= k and k <= 65535 and 0 <= g_client_settings[k] and g_client_settings[k] <= 4294967295 for k in g_client_settings)',
                     'implies(not self.config.client_side and settings_header is not None, settings_header == settings_header_of(g_client_settings))'],
    let={'cst': 'self.state_machine.state.value', 'client': 'self.config.client_side'},
    ensures=[('server-view-equals-client-settings', 'implies(not client and settings_header is not None and len(settings_header) > 0, all(setting_current(%s, k) == g_client_settings[k] for k in g_client_settings))' % RS, ['C25', 'C11']),
             ('client-header-encodes-the-announced-settings', 'implies(client, result == settings_header_of(g_out[-1].settings))', ['C25']),
             ('stream-1-exists', '1 in self.streams', ['C25']),
             ('client-stream-1-half-closed-local', 'implies(client, %s.state == StreamState.HALF_CLOSED_LOCAL and %s.client is True and %s.headers_sent)' % (S1, S1, S1), ['C25', 'C06']),
             ('server-stream-1-half-closed-remote', 'implies(not client, %s.state == StreamState.HALF_CLOSED_REMOTE and %s.client is False and %s.headers_received)' % (S1, S1, S1), ['C25', 'C06']),
             ('connection-open-in-own-role', 'self.state_machine.state == (ConnectionState.CLIENT_OPEN if client else ConnectionState.SERVER_OPEN)', ['C25']),
             ('next-stream-ids', '(self.highest_outbound_stream_id == 1 and self.highest_inbound_stream_id == 0) if client else (self.highest_inbound_stream_id == 1 and self.highest_outbound_stream_id == 0)', ['C25', 'C09']),
             ('client-returns-its-settings', 'implies(client, result is not None)', ['C25']),
             ('server-returns-nothing', 'implies(not client, result is None)', ['C25']),
             ('preface-and-settings-sent', 'len(g_out) == len(old(g_out)) + 1 and class_name(g_out[-1]) == "SettingsFrame" and not ("ACK" in g_out[-1].flags)', ['C25', 'C02']),
             ('header-settings-not-acknowledged-on-the-wire', 'len(self._data_to_send) == len(old(self._data_to_send)) + (24 if client else 0) + 9 + 6 * len(%s._settings)' % LS, ['C25', 'C02']),
             ('no-remote-setting-left-pending', NO_PENDING_REMOTE, ['C25', 'C11']),
             ('only-stream-1', 'all(k == 1 for k in self.streams)', ['C25']),
             ('stream-1-uses-the-handed-over-settings', 'self.streams[1].outbound_flow_control_window == setting_current(%s, S_INITIAL_WINDOW_SIZE) and self.streams[1]._inbound_window_manager.current_window_size == setting_current(%s, S_INITIAL_WINDOW_SIZE)' % (RS, LS), ['C25', 'C03']),
             ('derived-state-follows-the-handed-over-settings', 'implies(old(self.max_outbound_frame_size == setting_current(%s, S_MAX_FRAME_SIZE) and self.encoder.header_table_size == setting_current(%s, S_HEADER_TABLE_SIZE)), self.max_outbound_frame_size == setting_current(%s, S_MAX_FRAME_SIZE) and self.encoder.header_table_size == setting_current(%s, S_HEADER_TABLE_SIZE))' % (RS, RS, RS, RS), ['C25', 'C11']),
             ('GI', 'GI(self)')],
    raises=[dict(exc='ProtocolError', props=['C29', 'C25']), dict(exc='ValueError', props=['C29'], when='not client and settings_header is not None')],
    on_raise=[],
    canary='1 in self.streams and self.streams[1].state_machine.state == StreamState.OPEN')
