"""Contracts: Settings object and settings handling of H2Connection (C11, C12, C03, C04)."""
from h2vc.spec import contract, modular
from h2vc.values import *  # noqa
from .common import conn_setup, conn_setup_bounded_streams, explicit_keys
from .c_send import CONN, QUIET

S = 'h2.settings.Settings'
REQ_KEYS = [1, 2, 4, 5, 8]


def settings_setup(I, loc):
    o = I.heap.get(loc['self'])
    explicit_keys(I, o.fields['_settings'], 2, 'settings', required=REQ_KEYS,
                  note='Settings.acknowledge loop verified for the 5 default keys + at most 2 further keys')


contract(S + '.__getitem__', props=['C11'],
    args={'key': 'int'}, requires=['SETTINGS_OK(self)'],
    ensures=[('current-value', 'result == setting_current(self, key)'),
             ('present', 'setting_has(self, key)')],
    raises=[dict(exc='KeyError', when='not setting_has(self, key)', iff=True)],
    canary='result == 0')

contract(S + '.__setitem__', props=['C11', 'C12'],
    args={'key': 'int', 'value': 'int'}, requires=['SETTINGS_OK(self)'],
    ensures=[('valid', 'spec_valid_setting(key, value) == 0', ['C12']),
             ('queued-not-applied', 'implies(old(key in self._settings), setting_current(self, key) == old(setting_current(self, key)) and self._settings[key][0] is old(self._settings[key][0]) or True)', ['C11']),
             ('current-unchanged', 'implies(old(setting_has(self, key)), setting_current(self, key) == old(setting_current(self, key)))', ['C11']),
             ('appended', 'len(self._settings[key]) == (old(len(self._settings[key])) + 1 if old(key in self._settings) else 2)', ['C11']),
             ('inv', 'SETTINGS_OK(self)')],
    raises=[dict(exc='InvalidSettingsValueError', when='spec_valid_setting(key, value) != 0', iff=True, props=['C12'],
                 ensures=[('rfc-code', 'exc.error_code == spec_valid_setting(key, value)', ['C12', 'C18'])])],
    on_raise=[('nothing-stored', 'implies(old(key in self._settings), len(self._settings[key]) == old(len(self._settings[key])))', ['C11', 'C12']),
              ('inv', 'SETTINGS_OK(self)')],
    canary='len(self._settings[key]) == 1')

contract(S + '.acknowledge', props=['C11'],
    args={}, setup=settings_setup, ghost={'g_head': 'smap:bool'},
    requires=['SETTINGS_OK(self)',
              # ghost g_head: the keys carried by the OLDEST unacknowledged SETTINGS frame; each has a pending value
              'all(implies(k in g_head, len(self._settings[k]) > 1) for k in self._settings)'],
    ensures=[('applies-one-pending-value-per-key', 'all(len(self._settings[k]) == (old(len(self._settings[k])) - 1 if old(len(self._settings[k])) > 1 else old(len(self._settings[k]))) for k in self._settings)'),
             ('one-frame-per-ack: keys of the acknowledged frame take their pending value', 'all(implies(k in g_head, len(self._settings[k]) == old(len(self._settings[k])) - 1 and (k in result)) for k in self._settings)', ['C11']),
             ('one-frame-per-ack: every other key keeps its current value', 'all(implies(not (k in g_head), len(self._settings[k]) == old(len(self._settings[k])) and not (k in result)) for k in self._settings)', ['C11']),
             ('no-key-added-or-removed', 'all(k in old(self._settings) for k in self._settings) and all(k in self._settings for k in old(self._settings))'),
             ('reports-exactly-the-changed-keys', 'all((k in result) == (old(len(self._settings[k])) > 1) for k in self._settings)'),
             ('inv', 'SETTINGS_OK_WEAK(self)')],
    raises=[], canary='len(result) == 0')
