"""Layer 2 contracts (C14, C15, C16, C17): the REAL header pipeline stages of h2/utilities.py and h2/stream.py,
verified for header lists of ANY length by the transducer loop rule (h2vc/strmodel.py).

Vocabulary of a loop clause: `h` the arbitrary field being processed, `yielded` the values this iteration yielded,
`exhausted` (True on the path where the list is finished), `acc_<name>` the accumulators' arbitrary values at the
start of the iteration / at exhaustion.  The specification predicates (contracts/specfns.py, section "header
rules") are written from RFC 7540 section 8.1.2 and the property statements, field by field."""
import z3
from h2vc.spec import contract, modular
from h2vc.values import *  # noqa
from h2vc import strmodel
from h2vc.strmodel import HSEQ, HT, NIHT

U = 'h2.utilities.'
PERR = [('code', 'exc.error_code == PROTOCOL_ERROR', ['C15', 'C14', 'C18'])]
PASS = ('passes-the-field-through', 'len(yielded) == 1 and yielded[0] is h')
NOTHING_AFTER = ('nothing-after-the-last-field', 'len(result) == 0')


def stage_result(name, skip=None):
    """Modular result of a pipeline stage: the abstract sequence "input > stage" (lazy: nothing is consumed)."""
    def r(I, loc):
        inp = loc['headers']
        o = I.heap.get(inp)
        if not (isinstance(o, Obj) and o.cls == HSEQ):
            raise Unsupported('pipeline stage applied to %r' % (o,))
        if skip is not None and I.branch(I.truth(I.spec_eval(__import__('ast').parse(skip, mode='eval').body)), 'stage-skipped'):
            return inp
        f = dict(o.fields)
        f['trace'] = o.fields['trace'] + ' > ' + name
        return I.heap.alloc(Obj(HSEQ, f))
    return r


def simple_stage(name, props, kind, iteration, raises_when=None, extra=None, **kw):
    """A stage of the shape `for header in headers: [raise if bad(header)]; yield out(header)`."""
    loops = {'headers': dict(invariant=[], locals={}, iteration=iteration)}
    raises = []
    if raises_when:
        raises.append(dict(exc='ProtocolError', iff=False, props=props, when='not exhausted and (%s)' % raises_when, ensures=PERR))
    contract(U + name, props=props, args={'headers': kind, 'hdr_validation_flags': 'hvflags'},
             loops=loops, raises=raises, ensures=[NOTHING_AFTER + (props,)], result=stage_result(name), canary='len(result) == 1',
             lazy=True, assume_only=[], **kw)
    modular(U + name)


# ---- inbound validation stages (C15) ----------------------------------------------------------------------
IN = 'hdrseq:bytes:decoded'
simple_stage('_reject_uppercase_header_fields', ['C15'], IN,
             [PASS, ('accepted-name-has-no-uppercase-letter', 'not has_ascii_upper(h[0])')],
             raises_when='has_ascii_upper(h[0])')
simple_stage('_reject_surrounding_whitespace', ['C15', 'C17'], IN,
             [PASS, ('accepted-name-is-nonempty-and-trimmed', 'len(h[0]) > 0 and not ws_at_either_end(h[0])'),
              ('accepted-value-is-trimmed', 'not ws_at_either_end(h[1])')],
             raises_when='len(h[0]) == 0 or ws_at_either_end(h[0]) or ws_at_either_end(h[1])')
for _n, _p, _k in (('_reject_te', ['C15', 'C14'], 'hdrseq'), ('_reject_connection_header', ['C15', 'C14'], 'hdrseq')):
    pass
simple_stage('_reject_te', ['C15', 'C14'], 'hdrseq',
             [PASS, ('te-only-trailers', 'implies(is_name(h[0], "te"), is_name(h[1].lower(), "trailers"))')],
             raises_when='is_name(h[0], "te") and not is_name(h[1].lower(), "trailers")')
simple_stage('_reject_connection_header', ['C15', 'C14'], 'hdrseq',
             [PASS, ('no-connection-specific-field', 'not is_connection_specific(h[0])')],
             raises_when='is_connection_specific(h[0])')

# ---- outbound normalisation stages (C14) ------------------------------------------------------------------
simple_stage('_lowercase_header_names', ['C14'], 'hdrseq',
             [('one-field-out', 'len(yielded) == 1'),
              ('name-lowercased-value-kept', 'yielded[0][0] == h[0].lower() and yielded[0][1] == h[1]'),
              ('tuple-type-kept', 'header_class(yielded[0]) == header_class(h)')])
simple_stage('_strip_surrounding_whitespace', ['C14'], 'hdrseq',
             [('one-field-out', 'len(yielded) == 1'),
              ('name-and-value-trimmed', 'yielded[0][0] == h[0].strip() and yielded[0][1] == h[1].strip()'),
              ('tuple-type-kept', 'header_class(yielded[0]) == header_class(h)')])
simple_stage('_strip_connection_headers', ['C14'], 'hdrseq',
             [('connection-specific-fields-dropped', 'len(yielded) == (0 if is_connection_specific(h[0]) else 1)'),
              ('others-pass-through', 'implies(not is_connection_specific(h[0]), yielded[0] is h)')])
simple_stage('_secure_headers', ['C14'], 'hdrseq',
             [('one-field-out', 'len(yielded) == 1'),
              ('same-name-and-value', 'yielded[0][0] == h[0] and yielded[0][1] == h[1]'),
              ('credentials-and-short-cookies-never-indexed', 'implies(must_never_index(h[0], h[1]), header_class(yielded[0]) == "NeverIndexedHeaderTuple")'),
              ('others-pass-through', 'implies(not must_never_index(h[0], h[1]), yielded[0] is h)')])


# ---- pseudo-header rules (C14, C15) ------------------------------------------------------------------------
PSEUDO = [b':method', ':method', b':scheme', ':scheme', b':authority', ':authority', b':path', ':path',
          b':status', ':status', b':protocol', ':protocol']


def sym_pseudo_set(I, loc):
    """An arbitrary set of ALLOWED pseudo-header names (a disallowed one raises in the iteration that adds it)."""
    return I.heap.alloc(SetObj({k: I.fresh('seen_%s' % (k if isinstance(k, str) else k.decode()), 'bool') for k in PSEUDO}, universe=tuple(PSEUDO)))


def sym_opt_text(name, kind_from='headers'):
    def b(I, loc):
        kind = I.heap.get(loc[kind_from]).fields['kind']
        return Opt(I.fresh(name + '?', 'bool'), SymStr(kind, I.fresh(name, 'str')))
    return b


def sym_opt_bytes(name):
    def b(I, loc):
        return Opt(I.fresh(name + '?', 'bool'), SymStr('bytes', I.fresh(name, 'str')))
    return b


ACC_P = 'acc_seen_pseudo_header_fields, acc_method, hdr_validation_flags'
contract(U + '_reject_pseudo_header_fields', props=['C15', 'C14'],
    args={'headers': 'hdrseq', 'hdr_validation_flags': 'hvflags'}, result=stage_result('_reject_pseudo_header_fields'), lazy=True, assume_only=[],
    # a block is a trailer block or a response block, never both (ensured by H2Stream._build_hdr_validation_flags, below)
    requires=['not (hdr_validation_flags.is_trailer and hdr_validation_flags.is_response_header)'],
    loops={'headers': dict(
        invariant=[], locals={'seen_pseudo_header_fields': sym_pseudo_set, 'seen_regular_header': 'bool', 'method': sym_opt_bytes('method')},
        iteration=[PASS,
                   ('pseudo-fields-come-first-once-and-are-known', 'implies(is_pseudo(h[0]), not acc_seen_regular_header and not (h[0] in acc_seen_pseudo_header_fields) and is_known_pseudo(h[0]))'),
                   ('remembers-the-pseudo-field', 'implies(is_pseudo(h[0]), h[0] in seen_pseudo_header_fields)'),
                   ('remembers-a-regular-field', 'implies(not is_pseudo(h[0]), seen_regular_header)'),
                   ('earlier-fields-not-forgotten', 'implies(acc_seen_regular_header, seen_regular_header) and all(implies(k in acc_seen_pseudo_header_fields, k in seen_pseudo_header_fields) for k in PSEUDO_NAMES)'),
                   ('nothing-else-remembered', 'all(implies(k in seen_pseudo_header_fields, (k in acc_seen_pseudo_header_fields) or k == h[0]) for k in PSEUDO_NAMES)'),
                   ])},
    raises=[dict(exc='ProtocolError', props=['C15', 'C14'], ensures=PERR,
                 when='(not exhausted and is_pseudo(h[0]) and (acc_seen_regular_header or (h[0] in acc_seen_pseudo_header_fields) or not is_known_pseudo(h[0])))'
                      ' or (exhausted and not pseudo_fields_acceptable(%s))' % ACC_P)],
    ensures=[NOTHING_AFTER + (['C15', 'C14'],),
             ('block-type-rules-hold-at-the-end', 'pseudo_fields_acceptable(%s)' % ACC_P, ['C15', 'C14'])],
    canary='len(result) == 1')
modular(U + '_reject_pseudo_header_fields')

contract(U + '_validate_host_authority_header', props=['C15', 'C14'],
    args={'headers': 'hdrseq'}, result=stage_result('_validate_host_authority_header'), lazy=True, assume_only=[],
    loops={'headers': dict(
        invariant=[], locals={'authority_header_val': sym_opt_text('authority'), 'host_header_val': sym_opt_text('host')},
        iteration=[PASS,
                   ('authority-remembered', 'implies(is_name(h[0], ":authority"), authority_header_val == h[1]) and implies(not is_name(h[0], ":authority"), authority_header_val == acc_authority_header_val)'),
                   ('host-remembered', 'implies(is_name(h[0], "host"), host_header_val == h[1]) and implies(not is_name(h[0], "host"), host_header_val == acc_host_header_val)')])},
    raises=[dict(exc='ProtocolError', props=['C15', 'C14'], ensures=PERR,
                 when='exhausted and not host_authority_ok(acc_authority_header_val, acc_host_header_val)')],
    ensures=[NOTHING_AFTER + (['C15', 'C14'],),
             ('authority-or-host-present-and-agreeing', 'host_authority_ok(acc_authority_header_val, acc_host_header_val)', ['C15', 'C14'])],
    canary='len(result) == 1')
modular(U + '_validate_host_authority_header')

SKIP = 'hdr_validation_flags.is_response_header or hdr_validation_flags.is_trailer'
for _name in ('_check_host_authority_header', '_check_sent_host_authority_header'):
    contract(U + _name, props=['C15', 'C14'], args={'headers': 'hdrseq', 'hdr_validation_flags': 'hvflags'},
        result=stage_result('_validate_host_authority_header', skip=SKIP), lazy=True, assume_only=[],
        ensures=[('only-request-blocks-are-checked', 'implies(%s, result is headers)' % SKIP),
                 ('request-blocks-go-through-the-check', 'implies(not (%s), stage_trace(result) == stage_trace(headers) + " > _validate_host_authority_header")' % SKIP)],
        raises=[], canary='False')
    modular(U + _name)

contract(U + '_check_path_header', props=['C15', 'C14'], args={'headers': 'hdrseq', 'hdr_validation_flags': 'hvflags'},
    result=stage_result('_check_path_header', skip=SKIP), lazy=True, assume_only=[],
    loops={'headers': dict(invariant=[], locals={},
                           iteration=[PASS, ('path-is-not-empty', 'implies(is_name(h[0], ":path"), len(h[1]) > 0)')])},
    ensures=[('only-request-blocks-are-checked', 'implies(%s, result is headers)' % SKIP)],
    raises=[dict(exc='ProtocolError', props=['C15', 'C14'], ensures=PERR,
                 when='not (%s) and not exhausted and is_name(h[0], ":path") and len(h[1]) == 0' % SKIP)],
    canary='False')
modular(U + '_check_path_header')


# ---- cookies (C15) -------------------------------------------------------------------------------------------
def sym_cookie_list(I, loc):
    n = I.fresh('ncookies', 'int')
    I.assume(n >= 0)
    return I.heap.alloc(Obj('abs-strlist', {'n': n, 'acc': I.fresh('cookies_so_far', 'str'), 'kind': 'bytes'}))


contract(U + '_combine_cookie_fields', props=['C15'], args={'headers': IN, 'hdr_validation_flags': 'hvflags'},
    result=stage_result('_combine_cookie_fields'), lazy=True, assume_only=[],
    loops={'headers': dict(invariant=[], locals={'cookies': sym_cookie_list},
        iteration=[('cookie-fields-are-held-back', 'len(yielded) == (0 if h[0] == b"cookie" else 1)'),
                   ('others-pass-through', 'implies(h[0] != b"cookie", yielded[0] is h)'),
                   ('cookie-value-collected-in-order', 'implies(h[0] == b"cookie", strlist_len(cookies) == strlist_len(acc_cookies) + 1 and strlist_is_appended(cookies, acc_cookies, h[1]))'),
                   ('collection-kept-otherwise', 'implies(h[0] != b"cookie", strlist_len(cookies) == strlist_len(acc_cookies) and strlist_same(cookies, acc_cookies))')])},
    ensures=[('one-joined-cookie-last-iff-any', 'len(result) == (1 if strlist_len(acc_cookies) > 0 else 0)', ['C15']),
             ('joined-cookie-is-never-indexed', 'implies(strlist_len(acc_cookies) > 0, header_class(result[0]) == "NeverIndexedHeaderTuple" and result[0][0] == b"cookie" and result[0][1] == strlist_joined(acc_cookies, b"; "))', ['C15'])],
    raises=[], canary='len(result) == 2')
modular(U + '_combine_cookie_fields')


# ---- stream._decode_headers (C15, C17) -----------------------------------------------------------------------
contract('h2.stream._decode_headers', props=['C15', 'C17'], args={'headers': IN, 'encoding': 'str'},
    loops={'headers': dict(invariant=[], locals={},
        iteration=[('one-field-out', 'len(yielded) == 1'),
                   ('decoded-text-of-the-same-field', 'yielded[0][0] == h[0].decode(encoding) and yielded[0][1] == h[1].decode(encoding)'),
                   ('tuple-type-kept', 'header_class(yielded[0]) == header_class(h)')])},
    ensures=[NOTHING_AFTER + (['C15'],)],
    raises=[dict(exc='ProtocolError', props=['C15', 'C17'], ensures=PERR,
                 when='not exhausted and not (text_decodable(h[0], encoding) and text_decodable(h[1], encoding))')],
    canary='len(result) == 1')


# ---- scans with early return (C14, C16, C24) -------------------------------------------------------------------
contract(U + 'extract_method_header', props=['C16'], args={'headers': 'hdrseq'},
    loops={'headers': dict(invariant=[], locals={}, iteration=[('skips-other-fields', 'not is_name(h[0], ":method")')])},
    ensures=[('first-method-field-as-bytes', 'implies(not exhausted, is_name(h[0], ":method") and result == as_bytes(h[1]))', ['C16']),
             ('none-without-a-method-field', 'implies(exhausted, result is None)', ['C16'])],
    raises=[], canary='result is None')

contract(U + 'authority_from_headers', props=['C24'], args={'headers': 'hdrseq'},
    loops={'headers': dict(invariant=[], locals={}, iteration=[('skips-other-fields', 'not is_name(h[0], ":authority")')])},
    ensures=[('first-authority-field-as-bytes', 'implies(not exhausted, is_name(h[0], ":authority") and result == as_bytes(h[1]))', ['C24']),
             ('none-without-an-authority-field', 'implies(exhausted, result is None)', ['C24'])],
    raises=[], canary='result is None')

contract(U + 'is_informational_response', props=['C08', 'C07', 'C16'], args={'headers': 'hdrseq'},
    loops={'headers': dict(invariant=[], locals={},
                           iteration=[('only-other-pseudo-fields-are-skipped', 'is_pseudo(h[0]) and not is_name(h[0], ":status")')])},
    ensures=[('decided-by-the-status-field-among-the-leading-pseudo-fields', 'implies(not exhausted, result == (is_name(h[0], ":status") and starts_with_1(h[1])))', ['C08', 'C07']),
             ('regular-field-first-means-not-informational', 'implies(not exhausted and not is_pseudo(h[0]), result is False)', ['C08', 'C07']),
             ('no-status-field-means-not-informational', 'implies(exhausted, not result)', ['C08', 'C07'])],
    raises=[], canary='result is True')


def stream_setup(I, loc):
    pass


contract('h2.stream.H2Stream._initialize_content_length', props=['C16'],
    args={'headers': IN},
    loops={'headers': dict(invariant=[('declared-length-untouched-so-far', 'self._expected_content_length == old(self._expected_content_length)')], locals={},
                           iteration=[('skips-other-fields', 'h[0] != b"content-length" and not (h[0] == b":status" and h[1] in (b"204", b"304"))')])},
    ensures=[('head-requests-expect-no-content', 'implies(old(self.request_method) == b"HEAD", self._expected_content_length == 0)', ['C16']),
             ('no-content-status-expects-no-content', 'implies(old(self.request_method) != b"HEAD" and not exhausted and h[0] == b":status", self._expected_content_length == 0)', ['C16']),
             ('first-content-length-is-the-declared-length', 'implies(old(self.request_method) != b"HEAD" and not exhausted and h[0] == b"content-length", self._expected_content_length == decimal_value(h[1]))', ['C16']),
             ('nothing-declared-otherwise', 'implies(old(self.request_method) != b"HEAD" and exhausted, self._expected_content_length == old(self._expected_content_length))', ['C16'])],
    raises=[dict(exc='ProtocolError', props=['C16', 'C17'], ensures=PERR,
                 when='self.request_method != b"HEAD" and not exhausted and h[0] == b"content-length" and not is_decimal(h[1])')],
    unchanged=['self._actual_content_length', 'self.request_method'],
    canary='self._expected_content_length == 7')


# ---- the pipelines: which stages, in which order (C14, C15) ------------------------------------------------------
def pipeline(name, stages, props, kind='hdrseq'):
    chain = 'stage_trace(headers)' + ''.join(' + " > %s"' % s for s in stages)
    contract(U + name, props=props, args={'headers': kind, 'hdr_validation_flags': 'hvflags'},
             ensures=[('stages-in-the-specified-order', 'stage_trace(result) == ' + chain, props)],
             raises=[], canary='stage_trace(result) == stage_trace(headers)')


# request blocks (neither response nor trailer) run every stage; for the others the two request-only checks drop out
pipeline('normalize_outbound_headers', ['_lowercase_header_names', '_strip_surrounding_whitespace', '_strip_connection_headers', '_secure_headers'], ['C14'])
pipeline('normalize_inbound_headers', ['_combine_cookie_fields'], ['C15'], kind=IN)
REQ_ONLY = '("" if (%s) else " > _validate_host_authority_header > _check_path_header")' % SKIP
contract(U + 'validate_outbound_headers', props=['C14'], args={'headers': 'hdrseq', 'hdr_validation_flags': 'hvflags'}, requires=['not (hdr_validation_flags.is_trailer and hdr_validation_flags.is_response_header)'],
    ensures=[('stages-in-the-specified-order', 'stage_trace(result) == stage_trace(headers) + " > _reject_te > _reject_connection_header > _reject_pseudo_header_fields" + ' + REQ_ONLY, ['C14'])],
    raises=[], canary='stage_trace(result) == stage_trace(headers)')
contract(U + 'validate_headers', props=['C15'], args={'headers': IN, 'hdr_validation_flags': 'hvflags'}, requires=['not (hdr_validation_flags.is_trailer and hdr_validation_flags.is_response_header)'],
    ensures=[('stages-in-the-specified-order', 'stage_trace(result) == stage_trace(headers) + " > _reject_uppercase_header_fields > _reject_surrounding_whitespace > _reject_te > _reject_connection_header > _reject_pseudo_header_fields" + ' + REQ_ONLY, ['C15'])],
    raises=[], canary='stage_trace(result) == stage_trace(headers)')


EVENT_CLASSES = ['RequestReceived', 'ResponseReceived', 'TrailersReceived', 'InformationalResponseReceived',
                 'PushedStreamReceived', '_RequestSent', '_ResponseSent', '_TrailersSent', '_PushedRequestSent', 'DataReceived']


def sym_evlist(I, desc, name):
    """A non-empty event list whose first event is of any of the classes the stream machine produces."""
    i = I.choose([I.fresh('event_class', 'int') == n for n in range(len(EVENT_CLASSES))], 'first-event', names=EVENT_CLASSES)
    ev = I.instantiate(I.class_named('h2.events.' + EVENT_CLASSES[i]), [], {}, None)
    return I.heap.alloc(ListObj([ev]))


from h2vc.specmode import SpecMixin
SpecMixin.sym_builders['evlist'] = sym_evlist


# ---- the flags the stream hands to the pipelines -------------------------------------------------------------------
contract('h2.stream.H2Stream._build_hdr_validation_flags', props=['C14', 'C15'],
    args={'events': 'evlist'},
    ensures=[('trailer-and-response-are-exclusive', 'not (result.is_trailer and result.is_response_header)', ['C14', 'C15']),
             ('role-from-the-stream', 'result.is_client == self.state_machine.client', ['C14', 'C15']),
             ('block-type-from-the-event', 'result.is_trailer == (class_name(events[0]) in ("_TrailersSent", "TrailersReceived")) and result.is_response_header == (class_name(events[0]) in ("_ResponseSent", "ResponseReceived", "InformationalResponseReceived")) and result.is_push_promise == (class_name(events[0]) in ("PushedStreamReceived", "_PushedRequestSent"))', ['C14', 'C15'])],
    raises=[], canary='result.is_trailer')
