"""Contracts: ids, priority, acknowledgements, output buffer (C02, C04, C05, C09, C19, C21, C23, C29)."""
from h2vc.spec import contract, modular
from .common import conn_setup
from .c_send import CONN, SID, SM, KIND, QUIET, UNKNOWN_STREAM

contract(CONN + '.get_next_available_stream_id', props=['C09', 'C29'],
    args={}, setup=conn_setup, requires=['GI(self)'],
    ensures=[('own-parity', 'result % 2 == own_parity(self)', ['C09']),
             ('above-all-used', 'result > self.highest_outbound_stream_id', ['C09']),
             ('smallest', 'result <= self.highest_outbound_stream_id + 2 and result >= 1', ['C09']),
             ('in-range', 'result <= 2147483647', ['C09'])],
    raises=[dict(exc='NoAvailableStreamIDError', iff=True, props=['C09'],
                 when='(self.highest_outbound_stream_id + 2 if self.highest_outbound_stream_id != 0 else (1 if self.config.client_side else 2)) > 2147483647')],
    unchanged=['self.highest_outbound_stream_id', 'self.highest_inbound_stream_id', 'self._data_to_send'],
    on_raise=QUIET, canary='result == 1')

contract(CONN + '._get_stream_by_id', props=['C29', 'C09'],
    args={'stream_id': 'int'}, setup=conn_setup, requires=['GI(self)'],
    ensures=[('exists', 'stream_id in self.streams'),
             ('is-that-stream', 'result.stream_id == stream_id')],
    raises=[dict(exc='StreamClosedError', label='StreamClosedError(forgotten)', props=['C29'],
                 when='not (stream_id in self.streams) and stream_id <= watermark(self, stream_id)',
                 ensures=[('sid', 'exc.stream_id == stream_id'), ('code', 'exc.error_code == STREAM_CLOSED'), ('no-events', 'len(exc._events) == 0')]),
            dict(exc='NoSuchStreamError', label='NoSuchStreamError(never-used)', props=['C29'],
                 when='not (stream_id in self.streams) and stream_id > watermark(self, stream_id)',
                 ensures=[('sid', 'exc.stream_id == stream_id')])],
    unchanged=['self.highest_outbound_stream_id', 'self.highest_inbound_stream_id', 'self._data_to_send'],
    on_raise=QUIET, canary='result.stream_id == 0')

contract(CONN + '._begin_new_stream', props=['C09', 'C03', 'C04'],
    args={'stream_id': 'int', 'allowed_ids': 'enum:AllowedStreamIDs'}, setup=conn_setup,
    requires=['GI(self)', 'not (stream_id in self.streams)',
              'SETTINGS_OK(self.local_settings)', 'SETTINGS_OK(self.remote_settings)'],
    let={'wm': 'watermark(self, stream_id)', 'outb': 'stream_id % 2 == own_parity(self)'},
    ensures=[('above-watermark', 'stream_id > wm', ['C09']),
             ('parity', 'stream_id % 2 == allowed_ids.value', ['C09']),
             ('id-range', '1 <= stream_id and stream_id <= 2147483647', ['C09', 'C02']),
             ('watermark-updated', '(self.highest_outbound_stream_id if outb else self.highest_inbound_stream_id) == stream_id', ['C09']),
             ('other-watermark-kept', '(self.highest_inbound_stream_id if outb else self.highest_outbound_stream_id) == old(self.highest_inbound_stream_id if outb else self.highest_outbound_stream_id)', ['C09']),
             ('created-idle', '(stream_id in self.streams) and %s.state == StreamState.IDLE and %s.client is None' % (SM, SM), ['C09', 'C06']),
             ('outbound-window-from-remote-setting', '%s.outbound_flow_control_window == setting_current(self.remote_settings, S_INITIAL_WINDOW_SIZE)' % SID, ['C03']),
             ('inbound-window-from-local-setting', '%s._inbound_window_manager.current_window_size == setting_current(self.local_settings, S_INITIAL_WINDOW_SIZE) and %s._inbound_window_manager.max_window_size == setting_current(self.local_settings, S_INITIAL_WINDOW_SIZE)' % (SID, SID), ['C04', 'C05']),
             ('frame-sizes', '%s.max_outbound_frame_size == self.max_outbound_frame_size and %s.max_inbound_frame_size == self.max_inbound_frame_size' % (SID, SID), ['C02']),
             ('others-untouched', 'all(implies(k != stream_id, (k in old(self.streams)) and self.streams[k].state_machine.state == old(self.streams[k].state_machine.state)) for k in self.streams)'),
             ('GI-but-for-the-new-idle-stream', 'GI0(self)')],
    raises=[dict(exc='StreamIDTooLowError', when='stream_id <= wm', iff=True, props=['C09'],
                 ensures=[('sid', 'exc.stream_id == stream_id'), ('code', 'exc.error_code == PROTOCOL_ERROR')]),
            dict(exc='ProtocolError', when='stream_id % 2 != allowed_ids.value or stream_id > 2147483647', props=['C09'])],
    on_raise=QUIET + [('no-stream-created', 'not (stream_id in self.streams)', ['C09']),
                      ('watermarks-kept', 'self.highest_outbound_stream_id == old(self.highest_outbound_stream_id) and self.highest_inbound_stream_id == old(self.highest_inbound_stream_id)', ['C09'])],
    canary='stream_id == 1')

PRIO_ARGS = {'stream_id': 'int', 'weight': 'optint', 'depends_on': 'optint', 'exclusive': 'optbool'}
contract(CONN + '.prioritize', props=['C23', 'C08', 'C02', 'C29', 'C19'],
    args=PRIO_ARGS, setup=conn_setup, requires=['GI(self)'],
    let={'cst': 'self.state_machine.state.value'},
    ensures=[('clients-only', 'self.config.client_side', ['C23', 'C08']),
             ('weight-range', 'weight is None or (1 <= weight and weight <= 256)', ['C23']),
             ('no-self-dependency', 'depends_on is None or depends_on != stream_id', ['C23']),
             ('one-priority-frame', 'len(g_out) == len(old(g_out)) + 1 and class_name(g_out[-1]) == "PriorityFrame" and g_out[-1].stream_id == stream_id', ['C02', 'C23']),
             ('encoded-weight', 'g_out[-1].stream_weight == (15 if weight is None else weight - 1)', ['C23', 'C02']),
             ('encoded-dependency', 'g_out[-1].depends_on == (0 if depends_on is None else depends_on)', ['C23', 'C02']),
             ('encoded-exclusive', 'g_out[-1].exclusive == (False if exclusive is None else exclusive)', ['C23', 'C02']),
             ('wire-ranges', 'stream_id >= 1 and 0 <= g_out[-1].depends_on and g_out[-1].depends_on <= 2147483647', ['C23', 'C02']),
             ('no-stream-state-touched', 'all((k in old(self.streams)) and self.streams[k].state_machine.state == old(self.streams[k].state_machine.state) for k in self.streams)', ['C23']),
             ('not-closed', 'cst != C_CLOSED', ['C19']),
             ('GI', 'GI(self)')],
    raises=[dict(exc='RFC1122Error', when='not self.config.client_side', iff=True, props=['C23', 'C08']),
            dict(exc='ProtocolError', props=['C23', 'C19'],
                 when='not conn_accepts(cst, CI_SEND_PRIORITY) or (depends_on is not None and depends_on == stream_id) or (weight is not None and (weight < 1 or weight > 256))')],
    on_raise=QUIET, canary='len(g_out) == len(old(g_out))')

modular('h2.connection._add_frame_priority')
contract('h2.connection._add_frame_priority', props=['C23', 'C02'], result='expr:frame',
    modifies=['field|frame.stream_weight|int', 'field|frame.depends_on|int', 'field|frame.exclusive|bool'],
    args={'frame': 'frame:PriorityFrame', 'weight': 'optint', 'depends_on': 'optint', 'exclusive': 'optbool'},
    ensures=[('weight', 'result.stream_weight == (15 if weight is None else weight - 1) and 0 <= result.stream_weight and result.stream_weight <= 255'),
             ('dependency', 'result.depends_on == (0 if depends_on is None else depends_on)'),
             ('exclusive', 'result.exclusive == (False if exclusive is None else exclusive)'),
             ('same-frame', 'result is frame')],
    raises=[dict(exc='ProtocolError', iff=True,
                 when='(depends_on is not None and depends_on == frame.stream_id) or (weight is not None and (weight < 1 or weight > 256))')],
    canary='result.stream_weight == 15')

contract(CONN + '._receive_priority_frame', props=['C23', 'C09', 'C27', 'C17'],
    args={'frame': 'frame:PriorityFrame'}, setup=conn_setup, requires=['GI(self)'],
    let={'cst': 'self.state_machine.state.value'},
    ensures=[('no-frames', 'len(result[0]) == 0', ['C23']),
             ('one-event', 'len(result[1]) == 1 and class_name(result[1][0]) == "PriorityUpdated"', ['C23']),
             ('decoded', 'result[1][0].stream_id == frame.stream_id and result[1][0].weight == frame.stream_weight + 1 and result[1][0].depends_on == frame.depends_on and result[1][0].exclusive == frame.exclusive', ['C23']),
             ('weight-range', '1 <= result[1][0].weight and result[1][0].weight <= 256', ['C23']),
             ('no-self-dependency', 'frame.depends_on != frame.stream_id', ['C23']),
             ('closed-connection-processes-nothing', 'cst != C_CLOSED', ['C19']),
             ('no-stream-opened-or-closed', 'all(k in old(self.streams) for k in self.streams) and all(k in self.streams for k in old(self.streams))', ['C09', 'C27', 'C23']),
             ('stream-states-kept', 'all(self.streams[k].state_machine.state == old(self.streams[k].state_machine.state) and self.streams[k].outbound_flow_control_window == old(self.streams[k].outbound_flow_control_window) and self.streams[k]._inbound_window_manager.current_window_size == old(self.streams[k]._inbound_window_manager.current_window_size) for k in self.streams)', ['C23']),
             ('GI', 'GI(self)')],
    raises=[dict(exc='ProtocolError', props=['C23', 'C17'],
                 when='not conn_accepts(cst, CI_RECV_PRIORITY) or frame.depends_on == frame.stream_id',
                 ensures=[('code', 'exc.error_code == PROTOCOL_ERROR', ['C18'])])],
    unchanged=['self.highest_outbound_stream_id', 'self.highest_inbound_stream_id', 'self.outbound_flow_control_window',
               'self._inbound_flow_control_window_manager.current_window_size', 'len(self._closed_streams)'],
    on_raise=[('nothing-emitted', 'len(g_out) == len(old(g_out))')],
    canary='len(result[1]) == 0')

contract(CONN + '.data_to_send', props=['C21', 'C29'],
    args={'amount': 'optint'}, setup=conn_setup,
    ensures=[('partition', 'result + bytes(self._data_to_send) == old(bytes(self._data_to_send))', ['C21']),
             ('everything-when-none', 'implies(amount is None, len(self._data_to_send) == 0)', ['C21']),
             ('at-most-amount', 'implies(amount is not None and amount >= 0, len(result) <= amount)', ['C21'])],
    raises=[], canary='len(result) == 0')

contract(CONN + '.clear_outbound_data_buffer', props=['C19', 'C29'],
    args={}, setup=conn_setup,
    ensures=[('emptied', 'len(self._data_to_send) == 0')], raises=[], canary='len(self._data_to_send) == 1')

contract(CONN + '.acknowledge_received_data', props=['C04', 'C05', 'C19', 'C29', 'C02'],
    args={'acknowledged_size': 'int', 'stream_id': 'int'}, setup=conn_setup, requires=['GI(self)'],
    let={'cst': 'self.state_machine.state.value', 'exists': 'stream_id in self.streams',
         'cm': 'self._inbound_flow_control_window_manager'},
    ensures=[('arg-ranges', 'stream_id > 0 and acknowledged_size >= 0', ['C29']),
             ('at-most-two-updates', 'len(g_out) <= len(old(g_out)) + 2', ['C02']),
             ('only-window-updates', 'all_frames_are(g_out, len(old(g_out)), "WindowUpdateFrame")', ['C02', 'C04']),
             ('closed-connection-stays-quiet', 'implies(cst == C_CLOSED, len(g_out) == len(old(g_out)))', ['C19']),
             ('GI', 'GI(self)')],
    raises=[dict(exc='ValueError', when='stream_id <= 0 or acknowledged_size < 0', iff=True, props=['C29']),
            dict(exc='NoSuchStreamError', label='NoSuchStreamError(never-used)', props=['C29'],
                 when='not (stream_id in self.streams) and stream_id > watermark(self, stream_id)')],
    on_raise=QUIET + [('no-window-changed', 'cm.current_window_size == old(cm.current_window_size) and cm._bytes_processed == old(cm._bytes_processed)', ['C04'])],
    canary='len(g_out) == len(old(g_out)) + 1')


# ---------------------------------------------------------------------------
# Premise (1) of the induction over histories (DESIGN 2.7): the constructor establishes every invariant the
# other contracts assume.
contract(CONN + '.__init__', props=['C29', 'C09', 'C11', 'C19'],
    args={'config': 'obj:h2.config.H2Configuration'},
    ensures=[('GI', 'GI(self)'),
             ('settings-well-formed', 'SETTINGS_OK(self.local_settings) and SETTINGS_OK(self.remote_settings)', ['C11']),
             ('no-remote-setting-pending', 'all(len(self.remote_settings._settings[k]) == 1 for k in self.remote_settings._settings)', ['C11']),
             ('starts-idle-with-no-streams', 'self.state_machine.state == ConnectionState.IDLE and all(k < 0 for k in self.streams) and self.highest_inbound_stream_id == 0 and self.highest_outbound_stream_id == 0', ['C09', 'C19']),
             ('nothing-to-send', 'len(self._data_to_send) == 0 and len(g_out) == 0', ['C29']),
             ('frame-buffer-limit-is-the-inbound-limit', 'self.incoming_buffer.max_frame_size == self.max_inbound_frame_size or self.incoming_buffer.max_frame_size == 0', ['C21']),
             ('role-from-the-configuration', 'self.config is config', ['C29'])],
    raises=[], canary='self.highest_inbound_stream_id == 1')
