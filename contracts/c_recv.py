"""Contracts: per-frame receive handlers of H2Connection (C03, C04, C05, C17, C19, C20, C24, C27)."""
from h2vc.spec import contract
from .common import conn_setup
from .c_send import CONN, QUIET

FSID = 'self.streams[frame.stream_id]'
FSM = FSID + '.state_machine'
FKIND = lambda inp: ('rfc_kind(%s.state.value, %s, %s.client, %s.headers_sent, %s.trailers_sent, '
                     '%s.headers_received, %s.trailers_received, '
                     '(-1 if %s.stream_closed_by is None else %s.stream_closed_by.value))'
                     % (FSM, inp, FSM, FSM, FSM, FSM, FSM, FSM, FSM))
NO_STREAM_CHANGE = ('no-stream-opened-or-closed',
                    'all(k in old(self.streams) for k in self.streams) and all(k in self.streams for k in old(self.streams))')
PEER_ERR = [('code', 'exc.error_code == PROTOCOL_ERROR', ['C18'])]
WATERMARKS = ['self.highest_outbound_stream_id', 'self.highest_inbound_stream_id', 'len(self._closed_streams)']

contract(CONN + '._receive_window_update_frame', props=['C03', 'C17', 'C27', 'C20'],
    args={'frame': 'frame:WindowUpdateFrame'}, setup=conn_setup, requires=['GI(self)'],
    let={'cst': 'self.state_machine.state.value', 'sid': 'frame.stream_id', 'inc': 'frame.window_increment',
         'exists': 'frame.stream_id in self.streams'},
    ensures=[('closed-connection-processes-nothing', 'cst != C_CLOSED', ['C19']),
             ('conn-window-credited', 'implies(sid == 0, self.outbound_flow_control_window == old(self.outbound_flow_control_window) + inc)', ['C03']),
             ('conn-window-kept', 'implies(sid != 0, self.outbound_flow_control_window == old(self.outbound_flow_control_window))', ['C03']),
             ('stream-window-credited-or-reset', 'implies(sid != 0 and exists and len(result[1]) == 1 and class_name(result[1][0]) == "WindowUpdated", %s.outbound_flow_control_window == old(%s.outbound_flow_control_window) + inc)' % (FSID, FSID), ['C03']),
             ('other-stream-windows-kept', 'all(implies(k != sid, self.streams[k].outbound_flow_control_window == old(self.streams[k].outbound_flow_control_window)) for k in self.streams)', ['C03']),
             ('windows-in-range', 'self.outbound_flow_control_window <= MAXWIN', ['C03']),
             ('event', 'implies(sid == 0, len(result[1]) == 1 and class_name(result[1][0]) == "WindowUpdated" and result[1][0].stream_id == 0 and result[1][0].delta == inc)', ['C03']),
             ('overflow-is-stream-error', 'implies(sid != 0 and exists and old(%s.outbound_flow_control_window) + inc > MAXWIN and %s == K_OK and old(%s.state) != StreamState.CLOSED, len(result[0]) == 1 and class_name(result[0][0]) == "RstStreamFrame" and result[0][0].error_code == FLOW_CONTROL_ERROR and result[0][0].stream_id == sid)' % (FSID, 'old(' + FKIND('R_WU') + ')', FSM), ['C03']),
             ('idle-or-forgotten-stream-allocates-nothing', 'implies(sid != 0 and not exists, len(result[0]) == 0 and len(result[1]) == 0)', ['C27', 'C20']),
             NO_STREAM_CHANGE + (['C27'],),
             ('GI', 'GI(self)')],
    raises=[dict(exc='FlowControlError', when='sid == 0 and self.outbound_flow_control_window + inc > MAXWIN', props=['C03', 'C18'],
                 ensures=[('code', 'exc.error_code == FLOW_CONTROL_ERROR', ['C18', 'C03'])]),
            dict(exc='NoSuchStreamError', label='NoSuchStreamError(idle)', props=['C06'],
                 when='sid != 0 and not exists and sid > watermark(self, sid)', ensures=PEER_ERR),
            dict(exc='ProtocolError', props=['C17', 'C06'],
                 when='not conn_accepts(cst, CI_RECV_WU) or (exists and %s == K_PROTO)' % FKIND('R_WU'), ensures=PEER_ERR)],
    unchanged=WATERMARKS,
    on_raise=[('nothing-emitted', 'len(g_out) == len(old(g_out))')],
    canary='self.outbound_flow_control_window == old(self.outbound_flow_control_window)')

contract(CONN + '._receive_rst_stream_frame', props=['C27', 'C20', 'C17', 'C06'],
    args={'frame': 'frame:RstStreamFrame'}, setup=conn_setup, requires=['GI(self)'],
    let={'cst': 'self.state_machine.state.value', 'sid': 'frame.stream_id', 'exists': 'frame.stream_id in self.streams'},
    ensures=[('closed-connection-processes-nothing', 'cst != C_CLOSED', ['C19']),
             ('idle-stream-ignored', 'implies(not exists and sid > watermark(self, sid), len(result[0]) == 0 and len(result[1]) == 0)', ['C27', 'C06']),
             ('no-frames', 'len(result[0]) == 0'),
             ('closes-the-stream', 'implies(exists, %s.state == StreamState.CLOSED)' % FSM, ['C06']),
             ('reset-event', 'implies(exists and old(%s.state) != StreamState.CLOSED, len(result[1]) == 1 and class_name(result[1][0]) == "StreamReset" and result[1][0].stream_id == sid and result[1][0].remote_reset)' % FSM, ['C06', 'C07']),
             ('closed-stream-silent', 'implies(exists and old(%s.state) == StreamState.CLOSED, len(result[1]) == 0)' % FSM, ['C20', 'C07']),
             NO_STREAM_CHANGE + (['C27'],),
             ('GI', 'GI(self)')],
    raises=[dict(exc='StreamClosedError', label='StreamClosedError(forgotten)', props=['C20'],
                 when='not exists and sid <= watermark(self, sid)'),
            dict(exc='ProtocolError', props=['C17', 'C06'],
                 when='not conn_accepts(cst, CI_RECV_RST) or (exists and %s == K_PROTO)' % FKIND('R_RST'), ensures=PEER_ERR)],
    unchanged=WATERMARKS + ['self.outbound_flow_control_window'],
    on_raise=[('nothing-emitted', 'len(g_out) == len(old(g_out))')],
    canary='len(result[1]) == 0')

contract(CONN + '._receive_goaway_frame', props=['C19', 'C17'],
    args={'frame': 'frame:GoAwayFrame'}, setup=conn_setup, requires=['GI(self)'],
    ensures=[('closed', 'self.state_machine.state == ConnectionState.CLOSED', ['C19']),
             ('pending-output-discarded', 'len(self._data_to_send) == 0', ['C19']),
             ('event', 'len(result[1]) == 1 and class_name(result[1][0]) == "ConnectionTerminated" and result[1][0].last_stream_id == frame.last_stream_id', ['C19']),
             ('no-frames', 'len(result[0]) == 0', ['C19']),
             ('GI', 'GI(self)')],
    raises=[], canary='len(result[1]) == 0')

contract(CONN + '._receive_unknown_frame', props=['C27', 'C17'],
    args={'frame': 'frame:ExtensionFrame'}, setup=conn_setup, requires=['GI(self)'],
    ensures=[('event-only', 'len(result[0]) == 0 and len(result[1]) == 1 and class_name(result[1][0]) == "UnknownFrameReceived"'),
             NO_STREAM_CHANGE, ('GI', 'GI(self)')],
    raises=[], unchanged=WATERMARKS + ['self.state_machine.state'], canary='len(result[1]) == 0')

contract(CONN + '._terminate_connection', props=['C18', 'C19'],
    args={'error_code': 'int'}, setup=conn_setup, requires=['GI(self)', '0 <= error_code', 'error_code <= 4294967295'],
    ensures=[('exactly-one-goaway', 'len(g_out) == len(old(g_out)) + 1 and class_name(g_out[-1]) == "GoAwayFrame" and g_out[-1].stream_id == 0', ['C18']),
             ('code', 'g_out[-1].error_code == error_code', ['C18']),
             ('last-stream-id', 'g_out[-1].last_stream_id == self.highest_inbound_stream_id', ['C18']),
             ('closed', 'self.state_machine.state == ConnectionState.CLOSED', ['C19', 'C18']),
             ('GI', 'GI(self)')],
    raises=[], canary='len(g_out) == len(old(g_out))')

for _n in ('_stream_closed_by', '_stream_is_closed_by_reset', '_stream_is_closed_by_end'):
    pass

contract(CONN + '._stream_closed_by', props=['C20', 'C09'],
    args={'stream_id': 'int'}, setup=conn_setup, requires=['GI(self)'],
    ensures=[('live-stream', 'implies(stream_id in self.streams, result == %s.stream_closed_by)' % 'self.streams[stream_id].state_machine'),
             ('remembered', 'implies(not (stream_id in self.streams) and (stream_id in self._closed_streams), result == self._closed_streams[stream_id])'),
             ('unknown', 'implies(not (stream_id in self.streams) and not (stream_id in self._closed_streams), result is None)')],
    raises=[], unchanged=WATERMARKS, canary='result is None')

contract(CONN + '._stream_is_closed_by_reset', props=['C20', 'C09'],
    args={'stream_id': 'int'}, setup=conn_setup, requires=['GI(self)'],
    let={'cb': '(self.streams[stream_id].state_machine.stream_closed_by if (stream_id in self.streams) else (self._closed_streams[stream_id] if (stream_id in self._closed_streams) else None))'},
    ensures=[('iff-reset', 'result == (cb == StreamClosedBy.SEND_RST_STREAM or cb == StreamClosedBy.RECV_RST_STREAM)')],
    raises=[], canary='result == False')

contract(CONN + '._stream_is_closed_by_end', props=['C09', 'C18'],
    args={'stream_id': 'int'}, setup=conn_setup, requires=['GI(self)'],
    let={'cb': '(self.streams[stream_id].state_machine.stream_closed_by if (stream_id in self.streams) else (self._closed_streams[stream_id] if (stream_id in self._closed_streams) else None))'},
    ensures=[('iff-ended', 'result == (cb == StreamClosedBy.SEND_END_STREAM or cb == StreamClosedBy.RECV_END_STREAM)')],
    raises=[], canary='result == False')


CM = 'self._inbound_flow_control_window_manager'
SWM = FSID + '._inbound_window_manager'
contract(CONN + '._receive_data_frame', props=['C04', 'C05', 'C16', 'C17', 'C20', 'C07'],
    args={'frame': 'frame:DataFrame'}, setup=conn_setup, requires=['GI(self)'],
    ghost={'g_conn': 'int', 'g_stream': 'int'},
    let={'cst': 'self.state_machine.state.value', 'sid': 'frame.stream_id', 'exists': 'frame.stream_id in self.streams',
         'fcl': 'frame.flow_controlled_length', 'cw': CM + '.current_window_size',
         'es': '"END_STREAM" in frame.flags'},
    ensures=[('closed-connection-processes-nothing', 'cst != C_CLOSED', ['C19']),
             ('fits-connection-window', 'fcl <= cw', ['C04']),
             ('accepted-fits-stream-window', 'implies(accepted_data(result), fcl <= old(%s.current_window_size))' % SWM, ['C04']),
             ('accepted-consumes-both-windows', 'implies(accepted_data(result), %s.current_window_size == cw - fcl and %s.current_window_size == old(%s.current_window_size) - fcl)' % (CM, SWM, SWM), ['C04']),
             ('accepted-event', 'implies(accepted_data(result), result[1][0].stream_id == sid and result[1][0].data == frame.data and result[1][0].flow_controlled_length == fcl and len(result[0]) == 0)', ['C07']),
             ('accepted-only-in-body-states', 'implies(accepted_data(result), exists and %s == K_OK)' % ('old(' + FKIND('R_DATA') + ')'), ['C06', 'C07']),
             ('stream-ended-linked', 'implies(accepted_data(result) and es, len(result[1]) == 2 and class_name(result[1][1]) == "StreamEnded" and result[1][0].stream_ended is result[1][1])', ['C07']),
             ('no-end-without-flag', 'implies(accepted_data(result) and not es, len(result[1]) == 1 and result[1][0].stream_ended is None)', ['C07']),
             # C16: the body counter counts DATA payload only (padding excluded), never overruns the declared
             # length, and equals it when the message ends here
             ('body-counts-payload-only', 'implies(accepted_data(result), %s._actual_content_length == old(%s._actual_content_length) + len(frame.data))' % (FSID, FSID), ['C16']),
             ('body-within-declared-length', 'implies(accepted_data(result), %s._expected_content_length is None or %s._actual_content_length <= %s._expected_content_length)' % (FSID, FSID, FSID), ['C16']),
             ('ended-message-has-declared-length', 'implies(accepted_data(result) and es, %s._expected_content_length is None or %s._actual_content_length == %s._expected_content_length)' % (FSID, FSID, FSID), ['C16']),
             ('declared-length-kept', 'implies(accepted_data(result), %s._expected_content_length == old(%s._expected_content_length))' % (FSID, FSID), ['C16']),
             ('refused-data-is-acknowledged-for-the-user', 'implies(not accepted_data(result), WM_INV(%s, g_conn))' % CM, ['C05', 'C20'], 'WM_INV(%s, g_conn)' % CM),
             ('accepted-data-is-outstanding', 'implies(accepted_data(result), WM_INV(%s, g_conn + fcl) and WM_INV(%s, g_stream + fcl))' % (CM, SWM), ['C05'], 'WM_INV(%s, g_conn) and exists and WM_INV(%s, g_stream)' % (CM, SWM)),
             ('auto-ack-window-update', 'implies(not accepted_data(result), len(result[0]) <= 2 and implies(len(result[0]) == 2, class_name(result[0][0]) == "WindowUpdateFrame" and result[0][0].stream_id == 0 and result[0][0].window_increment == %s.current_window_size - (cw - fcl) and result[0][0].window_increment >= 1) and implies(len(result[0]) == 1, %s.current_window_size == cw - fcl))' % (CM, CM), ['C05', 'C20', 'C04']),
             ('refused-data-resets-the-stream', 'implies(not accepted_data(result), len(result[0]) >= 1 and class_name(result[0][-1]) == "RstStreamFrame" and result[0][-1].stream_id == sid and result[0][-1].error_code == STREAM_CLOSED)', ['C06', 'C20']),
             ('GI', 'GI(self)')],
    raises=[dict(exc='FlowControlError', props=['C04', 'C18'],
                 when='fcl > cw or (exists and %s == K_OK and fcl > %s.current_window_size)' % (FKIND('R_DATA'), SWM),
                 ensures=[('code', 'exc.error_code == FLOW_CONTROL_ERROR', ['C18', 'C04'])]),
            dict(exc='InvalidBodyLengthError', props=['C16'],
                 when='exists and %s._expected_content_length is not None and (%s._actual_content_length + len(frame.data) > %s._expected_content_length or (es and %s._actual_content_length + len(frame.data) != %s._expected_content_length))' % ((FSID,) * 5),
                 ensures=PEER_ERR),
            dict(exc='NoSuchStreamError', label='NoSuchStreamError(idle)', props=['C06'],
                 when='not exists and sid > watermark(self, sid)', ensures=PEER_ERR),
            dict(exc='ProtocolError', props=['C17', 'C06'],
                 when='not conn_accepts(cst, CI_RECV_DATA) or (exists and (%s == K_PROTO or (es and %s != K_OK)))' % (FKIND('R_DATA'), FKIND('R_DATA')),
                 ensures=PEER_ERR)],
    unchanged=WATERMARKS,
    on_raise=[('nothing-emitted', 'len(g_out) == len(old(g_out))')],
    canary='len(result[1]) == 0')

contract(CONN + '._receive_alt_svc_frame', props=['C24', 'C17', 'C27'],
    args={'frame': 'frame:AltSvcFrame'}, setup=conn_setup, requires=['GI(self)'],
    let={'cst': 'self.state_machine.state.value', 'sid': 'frame.stream_id', 'exists': 'frame.stream_id in self.streams',
         'has_origin': 'len(frame.origin) > 0'},
    ensures=[('closed-connection-processes-nothing', 'cst != C_CLOSED', ['C19']),
             ('no-frames', 'len(result[0]) == 0', ['C24']),
             ('at-most-one-event', 'len(result[1]) <= 1', ['C24']),
             ('servers-ignore', 'implies(not self.config.client_side and (sid == 0 or (exists and %s.client is not True)), len(result[1]) == 0)' % FSM, ['C24']),
             ('connection-level-needs-origin', 'implies(sid == 0, (len(result[1]) == 1) == (has_origin and self.config.client_side))', ['C24']),
             ('connection-level-event', 'implies(sid == 0 and len(result[1]) == 1, class_name(result[1][0]) == "AlternativeServiceAvailable" and result[1][0].origin == frame.origin and result[1][0].field_value == frame.field)', ['C24']),
             ('stream-level-conflicting-origin-ignored', 'implies(sid != 0 and has_origin, len(result[1]) == 0)', ['C24']),
             ('stream-level-unknown-stream-ignored', 'implies(sid != 0 and not exists, len(result[1]) == 0)', ['C24', 'C27']),
             ('stream-level-timing', 'implies(sid != 0 and exists and not has_origin, (len(result[1]) == 1) == (%s == "AlternativeServiceAvailable"))' % ('old(rfc_event(%s.state.value, R_ALTSVC, K_OK, %s.client, %s.headers_sent, %s.trailers_sent, %s.headers_received, %s.trailers_received))' % (FSM, FSM, FSM, FSM, FSM, FSM)), ['C24']),
             ('stream-level-event', 'implies(sid != 0 and len(result[1]) == 1, class_name(result[1][0]) == "AlternativeServiceAvailable" and result[1][0].origin == old(%s._authority) and result[1][0].field_value == frame.field)' % FSID, ['C24']),
             ('no-state-change', 'all(self.streams[k].state_machine.state == old(self.streams[k].state_machine.state) for k in self.streams)', ['C24']),
             NO_STREAM_CHANGE + (['C27'],),
             ('GI', 'GI(self)')],
    raises=[dict(exc='ProtocolError', when='not conn_accepts(cst, CI_RECV_ALTSVC)', props=['C17'], ensures=PEER_ERR)],
    unchanged=WATERMARKS,
    on_raise=[('nothing-emitted', 'len(g_out) == len(old(g_out))')],
    canary='len(result[1]) == 1')

contract(CONN + '._receive_naked_continuation', props=['C17', 'C06'],
    args={'frame': 'frame:ContinuationFrame'}, setup=conn_setup, requires=['GI(self)'],
    ensures=[('unreachable', 'False')],
    raises=[dict(exc='ProtocolError', props=['C17', 'C06'])],
    on_raise=[('nothing-emitted', 'len(g_out) == len(old(g_out))')])
