"""Contracts: header-carrying API at the connection level (abstract header
lists; C02, C08, C09, C10, C13, C16, C22, C23, C24, C29)."""
from h2vc.spec import contract
from .common import conn_setup
from .c_send import CONN, SID, SM, KIND, QUIET

SOK = ['GI(self)', 'SETTINGS_OK(self.local_settings)', 'SETTINGS_OK(self.remote_settings)']
PRIO = '(priority_weight is not None or priority_depends_on is not None or priority_exclusive is not None)'

contract(CONN + '.send_headers', props=['C02', 'C08', 'C09', 'C10', 'C13', 'C23', 'C29', 'C19'],
    args={'stream_id': 'int', 'headers': 'hdrlist', 'end_stream': 'bool', 'priority_weight': 'optint',
          'priority_depends_on': 'optint', 'priority_exclusive': 'optbool'},
    setup=conn_setup, requires=SOK,
    let={'new': 'not (stream_id in self.streams)', 'cst': 'self.state_machine.state.value',
         'wm': 'watermark(self, stream_id)', 'n0': 'len(g_out)',
         'open_out': 'count_open(self.streams, own_parity(self))'},
    ensures=[
        ('only-clients-open-streams-with-headers', 'implies(new, self.config.client_side)', ['C08']),
        ('new-id-above-all-earlier', 'implies(new, stream_id > wm and stream_id % 2 == own_parity(self) and 1 <= stream_id and stream_id <= 2147483647)', ['C09', 'C02']),
        ('peer-concurrency-limit-respected', 'implies(new, open_out + 1 <= max_concurrent(self.remote_settings))', ['C10']),
        ('header-block-shape', 'header_block_ok(g_out, n0, "HeadersFrame", stream_id, self.max_outbound_frame_size)', ['C02']),
        ('end-stream-flag', '("END_STREAM" in g_out[n0].flags) == end_stream', ['C02']),
        ('priority-flag', '("PRIORITY" in g_out[n0].flags) == %s' % PRIO, ['C02', 'C23']),
        ('priority-only-from-clients', 'implies(%s, self.config.client_side)' % PRIO, ['C23', 'C08']),
        ('priority-fields', 'implies(%s, g_out[n0].stream_weight == (15 if priority_weight is None else priority_weight - 1) and g_out[n0].depends_on == (0 if priority_depends_on is None else priority_depends_on) and g_out[n0].exclusive == (False if priority_exclusive is None else priority_exclusive) and (priority_weight is None or (1 <= priority_weight and priority_weight <= 256)) and (priority_depends_on is None or priority_depends_on != stream_id))' % PRIO, ['C23', 'C02']),
        ('compression-context-advanced-by-this-block-only', 'g_enc == old(g_enc) or g_enc == old(g_enc) + 1', ['C13']),
        ('trailers-carry-end-stream', 'implies(%s.trailers_sent and not old(%s.trailers_sent if (stream_id in self.streams) else False), end_stream)' % (SM, SM), ['C08']),
        ('not-closed', 'cst != C_CLOSED', ['C19']),
        ('GI', 'GI(self)')],
    raises=[
        dict(exc='TooManyStreamsError', iff=True, props=['C10'],
             when='new and open_out + 1 > max_concurrent(self.remote_settings)'),
        dict(exc='RFC1122Error', props=['C23', 'C08'], when='%s and not self.config.client_side' % PRIO),
        dict(exc='StreamIDTooLowError', props=['C09'], when='new and stream_id <= wm'),
        dict(exc='StreamClosedError', props=['C29', 'C06'],
             when='(stream_id in self.streams) and %s.state == StreamState.CLOSED' % SM),
        dict(exc='ProtocolError', props=['C08', 'C09', 'C29', 'C19']),
    ],
    on_raise=QUIET + [
        ('compression-context-untouched', 'g_enc == old(g_enc)', ['C13']),
        ('raising-call-keeps-stream-state', 'implies(not new, %s.state == old(%s.state))' % (SM, SM), ['C06', 'C10']),
    ],
    canary='len(g_out) == n0')
