"""Contracts: header-carrying API at the connection level (abstract header
lists; C02, C08, C09, C10, C13, C16, C22, C23, C24, C29)."""
from h2vc.spec import contract
from .common import conn_setup
from .c_send import CONN, SID, SM, KIND, QUIET

SOK = ['GI(self)', 'SETTINGS_OK(self.local_settings)', 'SETTINGS_OK(self.remote_settings)']
PRIO = '(priority_weight is not None or priority_depends_on is not None or priority_exclusive is not None)'

contract(CONN + '.send_headers', props=['C02', 'C08', 'C09', 'C10', 'C13', 'C23', 'C29', 'C19'],
    args={'stream_id': 'int', 'headers': 'hdrlist', 'end_stream': 'bool', 'priority_weight': 'optint',
          'priority_depends_on': 'optint', 'priority_exclusive': 'optbool'},
    setup=conn_setup, requires=SOK,
    let={'new': 'not (stream_id in self.streams)', 'cst': 'self.state_machine.state.value',
         'wm': 'watermark(self, stream_id)', 'n0': 'len(g_out)',
         'open_out': 'count_open(self.streams, own_parity(self))'},
    ensures=[
        ('only-clients-open-streams-with-headers', 'implies(new, self.config.client_side)', ['C08']),
        ('new-id-above-all-earlier', 'implies(new, stream_id > wm and stream_id % 2 == own_parity(self) and 1 <= stream_id and stream_id <= 2147483647)', ['C09', 'C02']),
        ('cleanup-precedes-creation', 'implies(new, all(k == stream_id or self.streams[k].state_machine.state != StreamState.CLOSED for k in self.streams))', ['C27', 'C10']),
        ('peer-concurrency-limit-respected', 'implies(new, open_out + 1 <= max_concurrent(self.remote_settings))', ['C10']),
        ('header-block-shape', 'header_block_ok(g_out, n0, "HeadersFrame", stream_id, self.max_outbound_frame_size)', ['C02']),
        ('end-stream-flag', '("END_STREAM" in g_out[n0].flags) == end_stream', ['C02']),
        ('priority-flag', '("PRIORITY" in g_out[n0].flags) == %s' % PRIO, ['C02', 'C23']),
        ('priority-only-from-clients', 'implies(%s, self.config.client_side)' % PRIO, ['C23', 'C08']),
        ('priority-fields', 'implies(%s, g_out[n0].stream_weight == (15 if priority_weight is None else priority_weight - 1) and g_out[n0].depends_on == (0 if priority_depends_on is None else priority_depends_on) and g_out[n0].exclusive == (False if priority_exclusive is None else priority_exclusive) and (priority_weight is None or (1 <= priority_weight and priority_weight <= 256)) and (priority_depends_on is None or priority_depends_on != stream_id))' % PRIO, ['C23', 'C02']),
        ('compression-context-advanced-by-this-block-only', 'g_enc == old(g_enc) or g_enc == old(g_enc) + 1', ['C13']),
        ('interim-responses-only-before-the-final-response', 'implies(not new and hdr_is_informational(headers) and old(%s.client) is False, not old(%s.headers_sent) and not end_stream)' % (SM, SM), ['C08']),
        ('request-authority-captured-once', 'implies(not new and old(%s._authority) is not None, %s._authority == old(%s._authority))' % (SID, SID, SID), ['C24']),
        # C16: a request stays a HEAD request when later blocks (trailers) carry no :method
        ('request-method-kept-by-blocks-without-a-method', 'implies(not new and not hdr_has_method(headers), %s.request_method == old(%s.request_method))' % (SID, SID), ['C16']),
        ('trailers-carry-end-stream', 'implies(%s.trailers_sent and not old(%s.trailers_sent if (stream_id in self.streams) else False), end_stream)' % (SM, SM), ['C08']),
        ('not-closed', 'cst != C_CLOSED', ['C19']),
        ('GI', 'GI(self)')],
    raises=[
        dict(exc='TooManyStreamsError', iff=True, props=['C10'],
             when='new and open_out + 1 > max_concurrent(self.remote_settings)'),
        dict(exc='RFC1122Error', props=['C23', 'C08'], when='%s and not self.config.client_side' % PRIO),
        dict(exc='StreamIDTooLowError', props=['C09'], when='new and stream_id <= wm'),
        dict(exc='StreamClosedError', props=['C29', 'C06'],
             when='(stream_id in self.streams) and %s.state == StreamState.CLOSED' % SM),
        dict(exc='ProtocolError', props=['C08', 'C09', 'C29', 'C19']),
    ],
    on_raise=QUIET + [
        ('compression-context-untouched', 'g_enc == old(g_enc)', ['C13']),
        ('raising-call-keeps-stream-state', 'implies(not new, %s.state == old(%s.state))' % (SM, SM), ['C06', 'C10']),
    ],
    canary='len(g_out) == n0')


# ---------------------------------------------------------------------------
# push_stream (C22, C13, C02, C09, C19, C29)
PSID = 'self.streams[promised_stream_id]'
PSM2 = PSID + '.state_machine'
PK = ('rfc_kind(%s.state.value, S_PUSH, %s.client, %s.headers_sent, %s.trailers_sent, %s.headers_received, '
      '%s.trailers_received, (-1 if %s.stream_closed_by is None else %s.stream_closed_by.value))' % ((SM,) * 8))

contract(CONN + '.push_stream', props=['C22', 'C13', 'C02', 'C09', 'C19', 'C29', 'C08'],
    args={'stream_id': 'int', 'promised_stream_id': 'int', 'request_headers': 'hdrlist'},
    setup=conn_setup, requires=SOK,
    let={'cst': 'self.state_machine.state.value', 'n0': 'len(g_out)', 'exists': 'stream_id in self.streams',
         'wm_out': 'self.highest_outbound_stream_id', 'pk': '(%s if exists else K_PROTO)' % PK,
         'pst': '(%s.state.value if exists else IDLE)' % SM,
         'peer_allows': 'setting_current(self.remote_settings, S_ENABLE_PUSH) != 0'},
    ensures=[
        ('only-servers-push', 'not self.config.client_side', ['C22', 'C08']),
        ('peer-allows-push', 'peer_allows', ['C22']),
        ('parent-is-client-initiated', 'exists and stream_id % 2 == 1', ['C22']),
        ('parent-open-or-half-closed-remote', 'pst == OPEN or pst == HC_REMOTE', ['C22', 'C06']),
        ('parent-accepts-push', 'pk == K_OK', ['C22', 'C06']),
        ('promised-id-rules', 'promised_stream_id % 2 == 0 and promised_stream_id > wm_out and 1 <= promised_stream_id and promised_stream_id <= 2147483647 and self.highest_outbound_stream_id == promised_stream_id', ['C22', 'C09', 'C02']),
        ('inbound-watermark-kept', 'self.highest_inbound_stream_id == old(self.highest_inbound_stream_id)', ['C09', 'C18']),
        ('promised-stream-reserved', '(promised_stream_id in self.streams) and %s.state == StreamState.RESERVED_LOCAL and %s.client is False' % (PSM2, PSM2), ['C22', 'C06']),
        ('parent-state-kept', '%s.state.value == pst' % SM, ['C06']),
        ('header-block-shape', 'header_block_ok(g_out, n0, "PushPromiseFrame", stream_id, self.max_outbound_frame_size)', ['C02']),
        ('promised-id-on-the-wire', 'g_out[n0].promised_stream_id == promised_stream_id', ['C02', 'C22']),
        ('compression-context-advanced-by-this-block-only', 'g_enc == old(g_enc) or g_enc == old(g_enc) + 1', ['C13']),
        ('not-closed', 'cst != C_CLOSED', ['C19']),
        ('GI', 'GI(self)')],
    raises=[
        dict(exc='StreamIDTooLowError', props=['C09', 'C22'], when='promised_stream_id <= watermark(self, promised_stream_id)'),
        dict(exc='StreamClosedError', props=['C29', 'C06'],
             when='(not exists and stream_id <= watermark(self, stream_id)) or (exists and %s.state == StreamState.CLOSED)' % SM),
        dict(exc='NoSuchStreamError', props=['C29'], when='not exists and stream_id > watermark(self, stream_id)'),
        dict(exc='ProtocolError', props=['C22', 'C29', 'C19', 'C08']),
    ],
    on_raise=QUIET + [
        ('compression-context-untouched', 'g_enc == old(g_enc)', ['C13']),
        ('no-stream-reserved', 'all(k in old(self.streams) for k in self.streams)', ['C22', 'C09']),
        ('watermarks-kept', 'self.highest_outbound_stream_id == wm_out and self.highest_inbound_stream_id == old(self.highest_inbound_stream_id)', ['C22', 'C09']),
        # C18: the GOAWAY of a later connection error names highest_inbound_stream_id, which only frames of the peer move
        ('peer-watermark-untouched-by-a-refused-push', 'self.highest_inbound_stream_id == old(self.highest_inbound_stream_id)', ['C18']),
        ('raising-call-keeps-stream-state', 'implies(exists, %s.state.value == pst)' % SM, ['C06', 'C10']),
    ],
    canary='len(g_out) == n0')


# ---------------------------------------------------------------------------
# advertise_alternative_service (C24, C08, C02, C19, C29)
AK = ('rfc_kind(%s.state.value, S_ALTSVC, %s.client, %s.headers_sent, %s.trailers_sent, %s.headers_received, '
      '%s.trailers_received, (-1 if %s.stream_closed_by is None else %s.stream_closed_by.value))' % ((SM,) * 8))
contract(CONN + '.advertise_alternative_service', props=['C24', 'C08', 'C02', 'C19', 'C29'],
    args={'field_value': 'bytes', 'origin': 'optbytes', 'stream_id': 'optint'},
    setup=conn_setup, requires=['GI(self)'],
    let={'cst': 'self.state_machine.state.value', 'exists': 'stream_id is not None and (stream_id in self.streams)'},
    ensures=[('only-servers-advertise', 'not self.config.client_side', ['C24', 'C08']),
             ('exactly-one-of-origin-and-stream', '(origin is None) != (stream_id is None)', ['C24', 'C29']),
             ('one-altsvc-frame', 'len(g_out) == len(old(g_out)) + 1 and class_name(g_out[-1]) == "AltSvcFrame" and g_out[-1].field == field_value', ['C02', 'C24']),
             ('connection-form', 'implies(origin is not None, g_out[-1].stream_id == 0 and g_out[-1].origin == origin)', ['C24', 'C02']),
             ('stream-form', 'implies(stream_id is not None, g_out[-1].stream_id == stream_id and len(g_out[-1].origin) == 0 and stream_id != 0)', ['C24', 'C02']),
             ('stream-form-only-before-the-response', 'implies(stream_id is not None, exists and old(%s) == K_OK and not old(%s.headers_sent) and old(%s.state) != StreamState.CLOSED and old(%s.state) != StreamState.IDLE)' % (AK, SM, SM, SM), ['C24', 'C08']),
             ('no-stream-state-change', 'all((k in old(self.streams)) and self.streams[k].state_machine.state == old(self.streams[k].state_machine.state) for k in self.streams)', ['C24']),
             ('not-closed', 'cst != C_CLOSED', ['C19']),
             ('GI', 'GI(self)')],
    raises=[dict(exc='ValueError', when='origin is not None and stream_id is not None', iff=True, props=['C24', 'C29']),
            dict(exc='TypeError', when='origin is None and stream_id is None', props=['C24', 'C29']),
            dict(exc='StreamClosedError', props=['C29'], when='stream_id is not None and not (stream_id in self.streams) and stream_id <= watermark(self, stream_id)'),
            dict(exc='NoSuchStreamError', props=['C29'], when='stream_id is not None and not (stream_id in self.streams) and stream_id > watermark(self, stream_id)'),
            dict(exc='ProtocolError', props=['C24', 'C08', 'C19', 'C29'])],
    on_raise=QUIET + [('raising-call-keeps-stream-state', 'implies(exists, %s.state == old(%s.state))' % (SM, SM), ['C06', 'C10'])],
    canary='len(g_out) == len(old(g_out))')
