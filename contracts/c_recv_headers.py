"""Contracts: header-carrying receive handlers of H2Connection -- HEADERS and PUSH_PROMISE
(C06, C07, C09, C10, C16, C17, C18, C20, C22, C23, C27)."""
from h2vc.spec import contract
from .common import conn_setup
from .c_send import CONN
from .c_recv import FSID, FSM, FKIND, PEER_ERR

SOK = ['GI(self)', 'SETTINGS_OK(self.local_settings)', 'SETTINGS_OK(self.remote_settings)']
FLAGS = '%s.client, %s.headers_sent, %s.trailers_sent, %s.headers_received, %s.trailers_received' % ((FSM,) * 5)
# the spec machine's view of the addressed stream in the pre-state (an absent stream is idle, flags unset)
ST0 = '(%s.state.value if exists else IDLE)' % FSM
def _kind(inp):
    return ('(rfc_kind(%s.state.value, %s, %s, (-1 if %s.stream_closed_by is None else %s.stream_closed_by.value)) '
            'if exists else (K_OK if %s == R_HEADERS else K_PROTO))' % (FSM, inp, FLAGS, FSM, FSM, inp))


KIND_H, KIND_I = _kind('R_HEADERS'), _kind('R_INFO')

contract(CONN + '._receive_headers_frame', props=['C06', 'C07', 'C09', 'C10', 'C16', 'C17', 'C20', 'C23', 'C27'],
    args={'frame': 'frame:HeadersFrame'}, setup=conn_setup, requires=SOK,
    let={'cst': 'self.state_machine.state.value', 'sid': 'frame.stream_id', 'exists': 'frame.stream_id in self.streams',
         'es': '"END_STREAM" in frame.flags', 'prio': '"PRIORITY" in frame.flags',
         'open_in': 'count_open(self.streams, 1 - own_parity(self))',
         'wm_in': 'self.highest_inbound_stream_id', 'wm': 'watermark(self, frame.stream_id)', 'st0': ST0, 'dec0': 'g_dec',
         'kh': KIND_H, 'ki': KIND_I, 'hr0': '(%s.headers_received if exists else None)' % FSM,
         'reset0': '((%s.stream_closed_by == StreamClosedBy.SEND_RST_STREAM) if exists else ((frame.stream_id in self._closed_streams) and self._closed_streams[frame.stream_id] == StreamClosedBy.SEND_RST_STREAM))' % FSM},
    ensures=[
        # C09: a stream is created only for an id of the peer's parity above every id the peer used before
        ('new-stream-id-rules', 'implies(not exists, sid > wm_in and sid % 2 != own_parity(self) and self.highest_inbound_stream_id == sid)', ['C09']),
        ('existing-stream-keeps-watermark', 'implies(exists, self.highest_inbound_stream_id == wm_in)', ['C09']),
        ('outbound-watermark-kept', 'self.highest_outbound_stream_id == old(self.highest_outbound_stream_id)', ['C09']),
        # C10: the acknowledged local limit
        ('local-concurrency-limit-enforced', 'implies(not exists, open_in + 1 <= max_concurrent(self.local_settings))', ['C10']),
        # C07 / C06: the event list
        ('closed-connection-processes-nothing', 'cst != C_CLOSED', ['C19']),
        # C27: closed streams are moved out of the live table before a new one is created
        ('cleanup-precedes-creation', 'implies(not exists, all(k == sid or self.streams[k].state_machine.state != StreamState.CLOSED for k in self.streams))', ['C27', 'C10']),
        ('no-frames', 'len(result[0]) == 0', ['C06']),
        ('first-event-kind', 'len(result[1]) >= 1 and class_name(result[1][0]) in ("RequestReceived", "ResponseReceived", "TrailersReceived", "InformationalResponseReceived")', ['C07']),
        ('first-event-stream', 'result[1][0].stream_id == sid', ['C07']),
        ('request-only-on-new-stream', '(class_name(result[1][0]) == "RequestReceived") == (st0 == IDLE)', ['C07', 'C06']),
        ('servers-get-requests-clients-get-responses', 'implies(class_name(result[1][0]) == "RequestReceived", not self.config.client_side) and implies(class_name(result[1][0]) in ("ResponseReceived", "InformationalResponseReceived"), self.config.client_side)', ['C07']),
        ('trailers-need-end-stream', 'implies(class_name(result[1][0]) == "TrailersReceived", es and hr0)', ['C07', 'C06']),
        ('informational-never-ends', 'implies(class_name(result[1][0]) == "InformationalResponseReceived", not es)', ['C07']),
        ('event-count', 'len(result[1]) == 1 + (1 if es else 0) + (1 if prio else 0)', ['C07']),
        ('stream-ended-linked', 'implies(es, class_name(result[1][1]) == "StreamEnded" and result[1][1].stream_id == sid and result[1][0].stream_ended is result[1][1])', ['C07']),
        ('no-end-without-flag', 'implies(not es and class_name(result[1][0]) != "InformationalResponseReceived", result[1][0].stream_ended is None)', ['C07']),
        ('priority-linked', 'implies(prio, class_name(result[1][-1]) == "PriorityUpdated" and result[1][0].priority_updated is result[1][-1] and result[1][-1].stream_id == sid and result[1][-1].weight == frame.stream_weight + 1 and result[1][-1].depends_on == frame.depends_on and result[1][-1].exclusive == frame.exclusive)', ['C07', 'C23']),
        ('no-priority-without-flag', 'implies(not prio, result[1][0].priority_updated is None)', ['C07', 'C23']),
        # C06: the stream follows the RFC machine
        ('accepted-only-where-rfc-accepts', '(ki == K_OK) if class_name(result[1][0]) == "InformationalResponseReceived" else (kh == K_OK)', ['C06']),
        ('next-state', 'implies(class_name(result[1][0]) != "InformationalResponseReceived", %s.state.value == (rfc_next(rfc_next(st0, R_HEADERS, K_OK), R_ES, K_OK) if es else rfc_next(st0, R_HEADERS, K_OK)))' % FSM, ['C06']),
        ('informational-keeps-state', 'implies(class_name(result[1][0]) == "InformationalResponseReceived", %s.state.value == st0)' % FSM, ['C06']),
        # C16: a message that ends on this frame (END_STREAM on HEADERS or on trailers) has received exactly
        # what it declared; the declaration is 0 for the no-content responses (HEAD, 204, 304: model of
        # _initialize_content_length), so those are refused only if DATA payload was received
        ('ended-message-has-declared-length', 'implies(es, %s._expected_content_length is None or %s._expected_content_length == %s._actual_content_length)' % (FSID, FSID, FSID), ['C16']),
        ('trailers-and-interim-responses-declare-nothing', 'implies(class_name(result[1][0]) in ("TrailersReceived", "InformationalResponseReceived"), %s._expected_content_length == old(%s._expected_content_length))' % (FSID, FSID), ['C16']),
        ('headers-carry-no-body', '%s._actual_content_length == (old(%s._actual_content_length) if exists else 0)' % (FSID, FSID), ['C16']),
        ('decoder-advanced-once', 'g_dec == dec0 + 1', ['C20', 'C13']),
        ('GI', 'GI(self)')],
    raises=[
        dict(exc='TooManyStreamsError', iff=True, props=['C10'],
             when='not exists and sid > wm_in and sid % 2 != own_parity(self) and open_in + 1 > max_concurrent(self.local_settings)',
             ensures=PEER_ERR),
        dict(exc='DenialOfServiceError', props=['C27', 'C18'], ensures=[('code', 'exc.error_code == ENHANCE_YOUR_CALM', ['C18', 'C27'])]),
        dict(exc='StreamIDTooLowError', props=['C09'], when='not exists and sid <= wm', ensures=PEER_ERR),
        dict(exc='StreamClosedError', props=['C06', 'C20'],
             when='exists and (kh == K_CLOSED or kh == K_RST or ki == K_CLOSED or ki == K_RST)',
             ensures=[('code', 'exc.error_code == STREAM_CLOSED', ['C18']), ('sid', 'exc.stream_id == sid')]),
        dict(exc='InvalidBodyLengthError', props=['C16'], ensures=PEER_ERR),
        dict(exc='ProtocolError', props=['C17', 'C06', 'C09'], ensures=PEER_ERR),
    ],
    on_raise=[('nothing-emitted', 'len(g_out) == len(old(g_out))'),
              # C20: a HEADERS frame racing our own reset (stream still registered, or remembered in the closed-stream
              # memory) is never refused before its header block went through the decoder: whatever error follows
              # (answered by RST_STREAM in _receive_frame), the compression context stays in sync, and no check that
              # precedes decoding (idle-stream guard, concurrency limit) may turn the frame into a connection error
              ('racing-headers-consume-their-block-first', 'implies(reset0 and conn_accepts(cst, CI_RECV_HEADERS), g_dec == dec0 + 1)', ['C20', 'C13'])],
    canary='len(result[1]) == 0')


# ---------------------------------------------------------------------------
# PUSH_PROMISE (C22, C20, C09, C06, C07, C17)
PSM = 'self.streams[frame.promised_stream_id].state_machine'
KIND_P = ('rfc_kind(%s.state.value, R_PUSH, %s, (-1 if %s.stream_closed_by is None else %s.stream_closed_by.value))'
          % (FSM, FLAGS, FSM, FSM))
REFUSED = ('len(result[0]) == 1 and class_name(result[0][0]) == "RstStreamFrame" and result[0][0].stream_id == pid '
           'and result[0][0].error_code == REFUSED_STREAM and len(result[1]) == 0')
ACCEPTED = 'len(result[0]) == 0'

contract(CONN + '._receive_push_promise_frame', props=['C22', 'C20', 'C09', 'C06', 'C07', 'C17'],
    args={'frame': 'frame:PushPromiseFrame'}, setup=conn_setup, requires=SOK,
    let={'cst': 'self.state_machine.state.value', 'sid': 'frame.stream_id', 'pid': 'frame.promised_stream_id',
         'exists': 'frame.stream_id in self.streams', 'wm_in': 'self.highest_inbound_stream_id', 'dec0': 'g_dec',
         'push_on': 'setting_current(self.local_settings, S_ENABLE_PUSH) != 0',
         'kp': '(%s if exists else K_PROTO)' % KIND_P,
         'parent_reset_by_us': '((%s.stream_closed_by == StreamClosedBy.SEND_RST_STREAM) if exists else ((frame.stream_id in self._closed_streams) and self._closed_streams[frame.stream_id] == StreamClosedBy.SEND_RST_STREAM))' % FSM},
    ensures=[
        ('push-must-be-enabled', 'push_on', ['C22']),
        ('closed-connection-processes-nothing', 'cst != C_CLOSED', ['C19']),
        ('only-clients-accept-pushes', 'implies(%s, self.config.client_side)' % ACCEPTED, ['C22']),
        ('either-refused-or-accepted', '(%s) or (%s)' % (REFUSED, ACCEPTED), ['C22', 'C20']),
        # a push is refused (RST_STREAM REFUSED_STREAM on the promised id, no event, no error) only when the parent
        # was reset by this endpoint, or the peer pushed on a stream it had itself already ended (leniency L2)
        ('refused-only-on-streams-we-reset', 'implies(%s, parent_reset_by_us or (exists and kp == K_RST))' % REFUSED, ['C20', 'C22', 'C06']),
        # C20: frames the peer already sent on the refused stream must later be treated as racing OUR reset, so the
        # refusal is remembered (closed-stream memory, bounded) and the promised id counts as used; no stream object
        # is registered for it (C27)
        ('refused-push-remembered-as-reset-by-us', 'implies((%s) and self.config.client_side and pid > wm_in and pid %% 2 == 0 and pid <= 2147483647 and self._closed_streams._size_limit >= 1, (pid in self._closed_streams) and self._closed_streams[pid] == StreamClosedBy.SEND_RST_STREAM and self.highest_inbound_stream_id == pid)' % REFUSED, ['C20', 'C09']),
        ('refusal-registers-no-stream', 'implies(%s, all(k in old(self.streams) for k in self.streams))' % REFUSED, ['C20', 'C27']),
        ('accepted-on-client-initiated-parent', 'implies(%s, exists and sid %% 2 == 1 and kp == K_OK)' % ACCEPTED, ['C22', 'C06']),
        ('accepted-event', 'implies(%s, len(result[1]) == 1 and class_name(result[1][0]) == "PushedStreamReceived" and result[1][0].parent_stream_id == sid and result[1][0].pushed_stream_id == pid)' % ACCEPTED, ['C22', 'C07']),
        ('promised-id-rules', 'implies(%s, pid > wm_in and pid %% 2 == 0 and self.highest_inbound_stream_id == pid)' % ACCEPTED, ['C09', 'C22']),
        ('promised-stream-reserved', 'implies(%s, (pid in self.streams) and %s.state == StreamState.RESERVED_REMOTE and %s.client is True)' % (ACCEPTED, PSM, PSM), ['C22', 'C06']),
        ('parent-state-kept', 'implies(%s, %s.state == old(%s.state))' % (ACCEPTED, FSM, FSM), ['C06']),
        ('outbound-watermark-kept', 'self.highest_outbound_stream_id == old(self.highest_outbound_stream_id)', ['C09']),
        ('header-block-decoded-even-when-refused', 'g_dec == dec0 + 1', ['C20', 'C13']),
        ('GI', 'GI(self)')],
    raises=[
        dict(exc='DenialOfServiceError', props=['C27', 'C18'], ensures=[('code', 'exc.error_code == ENHANCE_YOUR_CALM', ['C18', 'C27'])]),
        dict(exc='StreamIDTooLowError', props=['C09'], when='pid <= wm_in', ensures=PEER_ERR),
        dict(exc='StreamClosedError', props=['C06', 'C20'],
             when='(not exists and sid <= watermark(self, sid)) or (exists and kp == K_RST)',
             ensures=[('code', 'exc.error_code == STREAM_CLOSED', ['C18'])]),
        dict(exc='ProtocolError', props=['C22', 'C17', 'C06', 'C09'], ensures=PEER_ERR),
    ],
    on_raise=[('nothing-emitted', 'len(g_out) == len(old(g_out))'),
              ('disabled-push-is-a-connection-error', 'True', ['C22'])],
    canary='len(result[0]) == 1')
