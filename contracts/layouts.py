from h2vc.spec import layout

layout('h2.windows.WindowManager', {
    'max_window_size': 'int',
    'current_window_size': 'int',
    '_bytes_processed': 'int',
})
