from h2vc.spec import layout

layout('h2.windows.WindowManager', {
    'max_window_size': 'int',
    'current_window_size': 'int',
    '_bytes_processed': 'int',
})

layout('h2.stream.H2StreamStateMachine', {
    'state': 'enum:StreamState',
    'stream_id': 'int',
    'client': 'optbool',
    'headers_sent': 'optbool',
    'trailers_sent': 'optbool',
    'headers_received': 'optbool',
    'trailers_received': 'optbool',
    'stream_closed_by': 'optenum:StreamClosedBy',
})

layout('h2.connection.H2ConnectionStateMachine', {
    'state': 'enum:ConnectionState',
})

layout('collections.deque', {'cells': 'arrint', 'lo': 'int', 'hi': 'int', 'head_none': 'bool'})

layout('h2.settings.Settings', {'_settings': 'map:collections.deque'})

layout('h2.config.H2Configuration', {
    'client_side': 'bool',
    'header_encoding': 'optstr',
    'validate_outbound_headers': 'bool',
    'normalize_outbound_headers': 'bool',
    'validate_inbound_headers': 'bool',
    'normalize_inbound_headers': 'bool',
    'logger': 'opaque',
})

layout('h2.stream.H2Stream', {
    'state_machine': 'obj:h2.stream.H2StreamStateMachine',
    'stream_id': 'int',
    'max_outbound_frame_size': 'optint',
    'max_inbound_frame_size': 'int',
    'request_method': 'opthbytes',
    'outbound_flow_control_window': 'int',
    '_inbound_window_manager': 'obj:h2.windows.WindowManager',
    '_expected_content_length': 'optint',
    '_actual_content_length': 'int',
    '_authority': 'opthbytes',
    'config': 'shared',
})

layout('h2.frame_buffer.FrameBuffer', {
    'data': 'bytes',
    'max_frame_size': 'int',
    '_preamble': 'bytes',
    '_preamble_len': 'int',
    '_headers_buffer': 'list',
})

layout('hpack.hpack.Encoder', {'header_table_size': 'int'})
layout('hpack.hpack.Decoder', {'max_header_list_size': 'optint', 'max_allowed_table_size': 'int'})

layout('h2.connection.H2Connection', {
    'state_machine': 'obj:h2.connection.H2ConnectionStateMachine',
    'config': 'obj:h2.config.H2Configuration',
    'streams': 'map:h2.stream.H2Stream',
    'highest_inbound_stream_id': 'int',
    'highest_outbound_stream_id': 'int',
    'encoder': 'obj:hpack.hpack.Encoder',
    'decoder': 'obj:hpack.hpack.Decoder',
    'local_settings': 'obj:h2.settings.Settings',
    'remote_settings': 'obj:h2.settings.Settings',
    'outbound_flow_control_window': 'int',
    'max_outbound_frame_size': 'int',
    'max_inbound_frame_size': 'int',
    'incoming_buffer': 'obj:h2.frame_buffer.FrameBuffer',
    '_header_frames': 'list',
    '_data_to_send': 'bytearray',
    '_closed_streams': 'closedstreams',
    '_inbound_flow_control_window_manager': 'obj:h2.windows.WindowManager',
    '_frame_dispatch_table': 'dispatch',
})

layout('h2.settings.ChangedSetting', {'setting': 'int', 'original_value': 'optint', 'new_value': 'int'})
