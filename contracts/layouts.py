from h2vc.spec import layout

layout('h2.windows.WindowManager', {
    'max_window_size': 'int',
    'current_window_size': 'int',
    '_bytes_processed': 'int',
})

layout('h2.stream.H2StreamStateMachine', {
    'state': 'enum:StreamState',
    'stream_id': 'int',
    'client': 'optbool',
    'headers_sent': 'optbool',
    'trailers_sent': 'optbool',
    'headers_received': 'optbool',
    'trailers_received': 'optbool',
    'stream_closed_by': 'optenum:StreamClosedBy',
})

layout('h2.connection.H2ConnectionStateMachine', {
    'state': 'enum:ConnectionState',
})
