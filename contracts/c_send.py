"""Contracts: sending API of H2Connection (C02, C03, C04, C08, C09, C19, C23, C29)."""
from h2vc.spec import contract
from .common import conn_setup

CONN = 'h2.connection.H2Connection'
SID = 'self.streams[stream_id]'
SM = SID + '.state_machine'
KIND = lambda inp: ('rfc_kind(%s.state.value, %s, %s.client, %s.headers_sent, %s.trailers_sent, '
                    '%s.headers_received, %s.trailers_received, '
                    '(-1 if %s.stream_closed_by is None else %s.stream_closed_by.value))'
                    % (SM, inp, SM, SM, SM, SM, SM, SM, SM))

QUIET = [('nothing-emitted', 'len(g_out) == len(old(g_out))', ['C29', 'C19']),
         ('buffer-unchanged', 'self._data_to_send == old(self._data_to_send)', ['C29', 'C19']),
         ('GI', 'GI(self)')]
UNKNOWN_STREAM = [
    dict(exc='StreamClosedError', label='StreamClosedError(closed)', props=['C29', 'C06'],
         when='(stream_id in self.streams) and self.streams[stream_id].state_machine.state == StreamState.CLOSED'),
    dict(exc='StreamClosedError', label='StreamClosedError(forgotten)', props=['C29'],
         when='not (stream_id in self.streams) and stream_id <= watermark(self, stream_id)'),
    dict(exc='NoSuchStreamError', label='NoSuchStreamError(never-used)', props=['C29'],
         when='not (stream_id in self.streams) and stream_id > watermark(self, stream_id)'),
]

contract(CONN + '.send_data', props=['C03', 'C02', 'C29', 'C19'],
    args={'stream_id': 'int', 'data': 'bytes', 'end_stream': 'bool', 'pad_length': 'optint'},
    setup=conn_setup, requires=['GI(self)'],
    let={'fcl': 'len(data) + (0 if pad_length is None else pad_length + 1)',
         'cst': 'self.state_machine.state.value',
         'exists': 'stream_id in self.streams'},
    ensures=[
        ('within-stream-window', 'fcl <= old(%s.outbound_flow_control_window)' % SID, ['C03']),
        ('within-conn-window', 'fcl <= old(self.outbound_flow_control_window)', ['C03']),
        ('conn-window-decremented', 'self.outbound_flow_control_window == old(self.outbound_flow_control_window) - fcl', ['C03']),
        ('stream-window-decremented', '%s.outbound_flow_control_window == old(%s.outbound_flow_control_window) - fcl' % (SID, SID), ['C03']),
        ('windows-nonneg', 'self.outbound_flow_control_window >= 0 and %s.outbound_flow_control_window >= 0' % SID, ['C03']),
        ('other-streams-untouched', 'all(implies(k != stream_id, self.streams[k].outbound_flow_control_window == old(self.streams[k].outbound_flow_control_window)) for k in self.streams)', ['C03']),
        ('frame-size', 'fcl <= self.max_outbound_frame_size', ['C02']),
        ('pad-range', 'pad_length is None or (0 <= pad_length and pad_length <= 255)', ['C02', 'C29']),
        ('exactly-one-data-frame', 'len(g_out) == len(old(g_out)) + 1 and class_name(g_out[-1]) == "DataFrame"', ['C02', 'C03']),
        ('frame-fields', 'g_out[-1].stream_id == stream_id and g_out[-1].data == data and ("END_STREAM" in g_out[-1].flags) == end_stream and ("PADDED" in g_out[-1].flags) == (pad_length is not None) and implies(pad_length is not None, g_out[-1].pad_length == pad_length)', ['C02']),
        ('frame-fcl', 'g_out[-1].flow_controlled_length == fcl', ['C02', 'C03']),
        ('stream-id-valid', '1 <= stream_id and stream_id <= watermark(self, stream_id)', ['C02']),
        ('not-closed', 'cst != C_CLOSED', ['C19']),
        ('body-after-final-headers', 'old(%s.headers_sent)' % SM, ['C08']),
        ('GI', 'GI(self)')],
    raises=[
        dict(exc='ValueError', when='pad_length is not None and (pad_length < 0 or pad_length > 255)', iff=True, props=['C29', 'C02']),
        dict(exc='FlowControlError', props=['C03'], iff=True,
             when='exists and not (pad_length is not None and (pad_length < 0 or pad_length > 255)) and fcl > min(self.outbound_flow_control_window, %s.outbound_flow_control_window)' % SID),
        dict(exc='FrameTooLargeError', when='fcl > self.max_outbound_frame_size', props=['C02']),
    ] + UNKNOWN_STREAM + [
        dict(exc='ProtocolError', props=['C29', 'C19', 'C08'],
             when='not conn_accepts(cst, CI_SEND_DATA) or (exists and (%s != K_OK or end_stream))' % KIND('S_DATA')),
    ],
    on_raise=QUIET + [
        ('one-byte-more-emits-nothing', 'len(g_out) == len(old(g_out)) and self._data_to_send == old(self._data_to_send)', ['C03']),
        ('windows-unchanged', 'self.outbound_flow_control_window == old(self.outbound_flow_control_window) and all(self.streams[k].outbound_flow_control_window == old(self.streams[k].outbound_flow_control_window) for k in self.streams)', ['C03']),
        ('raising-call-keeps-stream-state', 'implies(exists, %s.state == old(%s.state))' % (SM, SM), ['C06', 'C10']),
    ],
    canary='self.outbound_flow_control_window == old(self.outbound_flow_control_window)')

contract(CONN + '.local_flow_control_window', props=['C03', 'C29'],
    args={'stream_id': 'int'}, setup=conn_setup, requires=['GI(self)'],
    ensures=[('min-of-both', 'result == min(self.outbound_flow_control_window, %s.outbound_flow_control_window)' % SID, ['C03']),
             ('exists', 'stream_id in self.streams')],
    raises=UNKNOWN_STREAM,
    unchanged=['self.outbound_flow_control_window', 'self._data_to_send'],
    on_raise=QUIET, canary='result == self.outbound_flow_control_window')

contract(CONN + '.remote_flow_control_window', props=['C04', 'C29'],
    args={'stream_id': 'int'}, setup=conn_setup, requires=['GI(self)'],
    ensures=[('min-of-both', 'result == min(self._inbound_flow_control_window_manager.current_window_size, %s._inbound_window_manager.current_window_size)' % SID, ['C04'])],
    raises=UNKNOWN_STREAM,
    unchanged=['self._data_to_send'],
    on_raise=QUIET, canary='result == 0')

contract(CONN + '.end_stream', props=['C02', 'C29', 'C19', 'C08'],
    args={'stream_id': 'int'}, setup=conn_setup, requires=['GI(self)'],
    let={'cst': 'self.state_machine.state.value', 'exists': 'stream_id in self.streams'},
    ensures=[('one-empty-data-frame', 'len(g_out) == len(old(g_out)) + 1 and class_name(g_out[-1]) == "DataFrame" and g_out[-1].stream_id == stream_id and len(g_out[-1].data) == 0 and ("END_STREAM" in g_out[-1].flags) and not ("PADDED" in g_out[-1].flags)', ['C02']),
             ('windows-untouched', 'self.outbound_flow_control_window == old(self.outbound_flow_control_window) and %s.outbound_flow_control_window == old(%s.outbound_flow_control_window)' % (SID, SID), ['C03']),
             ('not-closed', 'cst != C_CLOSED', ['C19']),
             ('end-after-final-headers', 'old(%s.headers_sent)' % SM, ['C08']),
             ('GI', 'GI(self)')],
    raises=UNKNOWN_STREAM + [
        dict(exc='ProtocolError', props=['C29', 'C19', 'C08'],
             when='not conn_accepts(cst, CI_SEND_DATA) or (exists and %s != K_OK)' % KIND('S_ES'))],
    on_raise=QUIET + [('raising-call-keeps-stream-state', 'implies(exists, %s.state == old(%s.state))' % (SM, SM), ['C06', 'C10'])],
    canary='len(g_out) == len(old(g_out))')

contract(CONN + '.reset_stream', props=['C02', 'C29', 'C19', 'C20'],
    args={'stream_id': 'int', 'error_code': 'int'}, setup=conn_setup, requires=['GI(self)'],
    let={'cst': 'self.state_machine.state.value', 'exists': 'stream_id in self.streams'},
    ensures=[('one-rst-frame', 'len(g_out) == len(old(g_out)) + 1 and class_name(g_out[-1]) == "RstStreamFrame" and g_out[-1].stream_id == stream_id and g_out[-1].error_code == error_code', ['C02']),
             ('code-range', '0 <= error_code and error_code <= 4294967295', ['C02', 'C29']),
             ('closed-by-local-reset', '%s.state == StreamState.CLOSED and %s.stream_closed_by == StreamClosedBy.SEND_RST_STREAM' % (SM, SM), ['C20', 'C06']),
             ('not-closed', 'cst != C_CLOSED', ['C19']),
             ('GI', 'GI(self)')],
    raises=UNKNOWN_STREAM + [
        dict(exc='ProtocolError', props=['C29', 'C19'],
             when='not conn_accepts(cst, CI_SEND_RST) or (exists and %s != K_OK)' % KIND('S_RST'))],
    on_raise=QUIET, canary='len(g_out) == len(old(g_out))')

contract(CONN + '.close_connection', props=['C02', 'C19', 'C29', 'C18'],
    args={'error_code': 'int', 'additional_data': 'optbytes', 'last_stream_id': 'optint'},
    setup=conn_setup, requires=['GI(self)'],
    ensures=[('one-goaway', 'len(g_out) == len(old(g_out)) + 1 and class_name(g_out[-1]) == "GoAwayFrame" and g_out[-1].stream_id == 0 and g_out[-1].error_code == error_code', ['C02', 'C19']),
             ('last-stream-id', 'g_out[-1].last_stream_id == (old(self.highest_inbound_stream_id) if last_stream_id is None else last_stream_id)', ['C02']),
             ('debug-data', 'g_out[-1].additional_data == (b"" if additional_data is None else additional_data)', ['C02']),
             ('closed', 'self.state_machine.state == ConnectionState.CLOSED', ['C19']),
             ('GI', 'GI(self)')],
    raises=[],
    on_raise=QUIET, canary='len(g_out) == len(old(g_out))')

contract(CONN + '.increment_flow_control_window', props=['C04', 'C02', 'C29', 'C19'],
    args={'increment': 'int', 'stream_id': 'optint'}, setup=conn_setup, requires=['GI(self)'],
    let={'cst': 'self.state_machine.state.value',
         'exists': 'stream_id is not None and (stream_id in self.streams)',
         'cw': 'self._inbound_flow_control_window_manager.current_window_size'},
    ensures=[('increment-range', '1 <= increment and increment <= 2147483647', ['C29', 'C02']),
             ('one-window-update', 'len(g_out) == len(old(g_out)) + 1 and class_name(g_out[-1]) == "WindowUpdateFrame" and g_out[-1].window_increment == increment and g_out[-1].stream_id == (0 if stream_id is None else stream_id)', ['C02', 'C04']),
             ('conn-window-opened', 'implies(stream_id is None, self._inbound_flow_control_window_manager.current_window_size == cw + increment)', ['C04']),
             ('conn-window-kept', 'implies(stream_id is not None, self._inbound_flow_control_window_manager.current_window_size == cw)', ['C04']),
             ('stream-window-opened', 'implies(stream_id is not None, %s._inbound_window_manager.current_window_size == old(%s._inbound_window_manager.current_window_size) + increment)' % (SID, SID), ['C04']),
             ('other-stream-windows-kept', 'all(implies(stream_id is None or k != stream_id, self.streams[k]._inbound_window_manager.current_window_size == old(self.streams[k]._inbound_window_manager.current_window_size)) for k in self.streams)', ['C04']),
             ('advertised-at-most-max', 'self._inbound_flow_control_window_manager.current_window_size <= MAXWIN', ['C04']),
             ('not-closed', 'cst != C_CLOSED', ['C19']),
             ('GI', 'GI(self)')],
    raises=[dict(exc='ValueError', when='increment < 1 or increment > 2147483647', iff=True, props=['C29']),
            dict(exc='StreamClosedError', label='StreamClosedError(closed)', props=['C29', 'C06'],
                 when='exists and self.streams[stream_id].state_machine.state == StreamState.CLOSED'),
            dict(exc='StreamClosedError', label='StreamClosedError(forgotten)', props=['C29'],
                 when='stream_id is not None and not (stream_id in self.streams) and stream_id <= watermark(self, stream_id)'),
            dict(exc='NoSuchStreamError', label='NoSuchStreamError(never-used)', props=['C29'],
                 when='stream_id is not None and not (stream_id in self.streams) and stream_id > watermark(self, stream_id)'),
            dict(exc='FlowControlError', props=['C04'],
                 when='(stream_id is None and cw + increment > MAXWIN) or (exists and %s._inbound_window_manager.current_window_size + increment > MAXWIN)' % SID),
            dict(exc='ProtocolError', props=['C29', 'C19'],
                 when='not conn_accepts(cst, CI_SEND_WU) or (exists and %s != K_OK)' % KIND('S_WU'))],
    on_raise=QUIET + [
        ('no-window-changed', 'self._inbound_flow_control_window_manager.current_window_size == cw and all(self.streams[k]._inbound_window_manager.current_window_size == old(self.streams[k]._inbound_window_manager.current_window_size) for k in self.streams)', ['C04'])],
    canary='len(g_out) == len(old(g_out))')
