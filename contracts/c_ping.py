"""Contracts: PING (C26)."""
from h2vc.spec import contract
from .common import conn_setup

CONN = 'h2.connection.H2Connection'

contract(CONN + '.ping', props=['C26', 'C29', 'C19', 'C02'],
    args={'opaque_data': 'bytes'}, setup=conn_setup, requires=['GI(self)'],
    let={'cst': 'self.state_machine.state.value'},
    ensures=[('accepts-8-bytes-only', 'len(opaque_data) == 8', ['C26']),
             ('exactly-one-frame', 'len(g_out) == len(old(g_out)) + 1', ['C26', 'C02']),
             ('is-ping', 'class_name(g_out[-1]) == "PingFrame" and g_out[-1].stream_id == 0 and not ("ACK" in g_out[-1].flags)', ['C26', 'C02']),
             ('same-payload', 'g_out[-1].opaque_data == opaque_data', ['C26', 'C02']),
             ('bytes-appended', 'len(self._data_to_send) == len(old(self._data_to_send)) + 17', ['C02']),
             ('not-closed', 'cst != C_CLOSED', ['C19']),
             ('GI', 'GI(self)')],
    raises=[dict(exc='ValueError', when='len(opaque_data) != 8', iff=True, props=['C26', 'C29']),
            dict(exc='ProtocolError', when='not conn_accepts(cst, CI_SEND_PING)', iff=True, props=['C19', 'C29'])],
    on_raise=[('nothing-emitted', 'len(g_out) == len(old(g_out))', ['C29', 'C19']),
              ('buffer-unchanged', 'self._data_to_send == old(self._data_to_send)', ['C29', 'C19']),
              ('GI', 'GI(self)')],
    canary='len(g_out) == len(old(g_out))')

contract(CONN + '._receive_ping_frame', props=['C26', 'C17'],
    args={'frame': 'frame:PingFrame'}, setup=conn_setup, requires=['GI(self)'],
    let={'cst': 'self.state_machine.state.value', 'ack': '"ACK" in frame.flags'},
    ensures=[('one-event', 'len(result[1]) == 1', ['C26']),
             ('event-kind', 'class_name(result[1][0]) == ("PingAckReceived" if ack else "PingReceived")', ['C26']),
             ('event-payload', 'result[1][0].ping_data == frame.opaque_data', ['C26']),
             ('ack-not-answered', 'implies(ack, len(result[0]) == 0)', ['C26']),
             ('answered-once', 'implies(not ack, len(result[0]) == 1 and class_name(result[0][0]) == "PingFrame" and ("ACK" in result[0][0].flags) and result[0][0].opaque_data == frame.opaque_data and result[0][0].stream_id == 0)', ['C26']),
             ('closed-connection-processes-nothing', 'cst != C_CLOSED', ['C19']),
             ('nothing-serialised-here', 'len(g_out) == len(old(g_out))')],
    raises=[dict(exc='ProtocolError', when='not conn_accepts(cst, CI_RECV_PING)', iff=True, props=['C17', 'C19'])],
    canary='len(result[0]) == 0')
