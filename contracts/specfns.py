"""Spec functions: pure Python, written from the property statements / RFCs,
restricted to the subset the interpreter translates (single-expression
returns, no loops).  The same text is imported natively by the replay
harness, so the oracle is one text."""

MAXWIN = 2 ** 31 - 1


def implies(a, b):
    """Native meaning of the specification form implies(a, b) (both sides are evaluated)."""
    return (not a) or bool(b)

# error codes (RFC 7540 section 7) -- written as integers on purpose: the
# oracle must not depend on h2.errors
NO_ERROR = 0
PROTOCOL_ERROR = 1
FLOW_CONTROL_ERROR = 3
STREAM_CLOSED = 5
FRAME_SIZE_ERROR = 6
REFUSED_STREAM = 7
COMPRESSION_ERROR = 9
ENHANCE_YOUR_CALM = 11

# setting identifiers (RFC 7540 section 6.5.2, RFC 8441 section 3)
S_HEADER_TABLE_SIZE = 1
S_ENABLE_PUSH = 2
S_MAX_CONCURRENT_STREAMS = 3
S_INITIAL_WINDOW_SIZE = 4
S_MAX_FRAME_SIZE = 5
S_MAX_HEADER_LIST_SIZE = 6
S_ENABLE_CONNECT_PROTOCOL = 8


def spec_valid_setting(setting, value):
    """C12: RFC-mandated error code for (identifier, value); 0 = acceptable."""
    return (
        (PROTOCOL_ERROR if (value != 0 and value != 1) else NO_ERROR) if setting == S_ENABLE_PUSH else
        (FLOW_CONTROL_ERROR if (value < 0 or value > 2147483647) else NO_ERROR) if setting == S_INITIAL_WINDOW_SIZE else
        (PROTOCOL_ERROR if (value < 16384 or value > 16777215) else NO_ERROR) if setting == S_MAX_FRAME_SIZE else
        (PROTOCOL_ERROR if (value != 0 and value != 1) else NO_ERROR) if setting == S_ENABLE_CONNECT_PROTOCOL else
        (PROTOCOL_ERROR if value < 0 else NO_ERROR) if setting == S_MAX_HEADER_LIST_SIZE else
        NO_ERROR)


def WM_INV(wm, outstanding):
    """C05: window-manager invariant with the ghost `outstanding` = bytes
    received and not yet acknowledged by the application."""
    return (0 <= wm.max_window_size and wm.max_window_size <= MAXWIN
            and wm._bytes_processed >= 0 and outstanding >= 0
            and wm.current_window_size + wm._bytes_processed + outstanding == wm.max_window_size)


def WM_RANGE(wm):
    return wm.max_window_size <= MAXWIN and wm.current_window_size <= MAXWIN


# ---------------------------------------------------------------------------
# Global representation invariant of H2Connection (DESIGN 2.4 / 2.7): every
# public method is verified to preserve it on normal AND exceptional exits.
def own_parity(c):
    return 1 if c.config.client_side else 0


def watermark(c, k):
    return c.highest_outbound_stream_id if k % 2 == own_parity(c) else c.highest_inbound_stream_id


def STREAM_INV(c, s, k):
    return (s.stream_id == k and s.state_machine.stream_id == k and k >= 1
            and SM_INV(s.state_machine)
            and s.max_outbound_frame_size == c.max_outbound_frame_size
            and k <= watermark(c, k)
            and s._inbound_window_manager.current_window_size <= s._inbound_window_manager.max_window_size
            and s._inbound_window_manager._bytes_processed >= 0
            and s.outbound_flow_control_window <= MAXWIN
            and s._actual_content_length >= 0
            # role: every stream of a client was opened as a client's stream (own request or a push it
            # received), every stream of a server as a server's
            and implies(s.state_machine.client is not None, (s.state_machine.client is True) == c.config.client_side))


def GI(c):
    """Global invariant between public calls: GI0 plus: no registered stream is idle (a stream enters
    `streams` only together with the frame or call that opens or reserves it)."""
    return GI0(c) and all(c.streams[k].state_machine.state.value != 0 for k in c.streams)


def GI0(c):
    return (16384 <= c.max_outbound_frame_size and c.max_outbound_frame_size <= 16777215
            and 16384 <= c.max_inbound_frame_size and c.max_inbound_frame_size <= 16777215
            and c.highest_inbound_stream_id >= 0 and c.highest_outbound_stream_id >= 0
            and c.highest_inbound_stream_id <= 2147483647 and c.highest_outbound_stream_id <= 2147483647
            and (c.highest_outbound_stream_id == 0 or c.highest_outbound_stream_id % 2 == own_parity(c))
            and (c.highest_inbound_stream_id == 0 or c.highest_inbound_stream_id % 2 != own_parity(c))
            and c.outbound_flow_control_window <= MAXWIN
            and c._inbound_flow_control_window_manager.max_window_size <= MAXWIN
            and c._inbound_flow_control_window_manager.current_window_size <= c._inbound_flow_control_window_manager.max_window_size
            and c._inbound_flow_control_window_manager._bytes_processed >= 0
            and len(c._closed_streams) <= c._closed_streams._size_limit
            # the closed-stream memory only holds ids that were used and are no longer live
            and all(k <= watermark(c, k) and k >= 1 and not (k in c.streams) for k in c._closed_streams)
            and all(STREAM_INV(c, c.streams[k], k) for k in c.streams))


def all_frames_are(frames, start, name):
    return all(class_name(f) == name for f in frames[start:])


def class_name(x):
    return type(x).__name__


# ---------------------------------------------------------------------------
# Settings abstraction (C11): current value = head of the per-key deque
def setting_current(s, key):
    return s._settings[key][0]


def setting_has(s, key):
    return (key in s._settings) and len(s._settings[key]) >= 1 and s._settings[key][0] is not None


def SETTINGS_OK(s):
    """Representation invariant of a Settings object: the five RFC defaults are
    always present with valid current values; every stored queue is non-empty."""
    return (all(len(s._settings[k]) >= 1 for k in s._settings)
            and setting_has(s, S_HEADER_TABLE_SIZE)
            and setting_has(s, S_ENABLE_PUSH)
            and setting_has(s, S_INITIAL_WINDOW_SIZE) and 0 <= setting_current(s, S_INITIAL_WINDOW_SIZE) and setting_current(s, S_INITIAL_WINDOW_SIZE) <= MAXWIN
            and setting_has(s, S_MAX_FRAME_SIZE) and 16384 <= setting_current(s, S_MAX_FRAME_SIZE) and setting_current(s, S_MAX_FRAME_SIZE) <= 16777215
            and setting_has(s, S_ENABLE_CONNECT_PROTOCOL)
            # values still waiting for their acknowledgement were validated when they were queued
            and queued_in_range(s._settings[S_MAX_FRAME_SIZE], 16384, 16777215)
            and queued_in_range(s._settings[S_INITIAL_WINDOW_SIZE], 0, MAXWIN))


def queued_in_range(q, lo, hi):
    """Every value behind the head of a setting's queue (a value announced but not yet acknowledged) is in
    [lo, hi].  (Symbolically: a quantifier over queue positions, h2vc/hdrmodel.py h_queued_in_range.)"""
    return all(v is not None and lo <= v and v <= hi for v in list(q)[1:])


def accepted_data(result):
    """The DATA frame was delivered to the application (a DataReceived event)."""
    return len(result[1]) >= 1 and class_name(result[1][0]) == "DataReceived"


def count_open(streams, r):
    """RFC 7540 5.1.2: streams in open / half-closed states with parity r
    (reserved states do not count).  StreamState: OPEN=3, HALF_CLOSED_REMOTE=4,
    HALF_CLOSED_LOCAL=5."""
    return sum(1 for k in streams if streams[k].state_machine.state.value in (3, 4, 5) and k % 2 == r)


# ---------------------------------------------------------------------------
# C02: shape of a header block in the emitted frame sequence
def header_block_ok(frames, start, first_cls, sid, max_size):
    """frames[start:] is one contiguous header block: a HEADERS / PUSH_PROMISE
    frame followed only by CONTINUATION frames on the same stream, END_HEADERS
    on the last frame only, every payload within the peer's MAX_FRAME_SIZE."""
    return (len(frames) > start
            and class_name(frames[start]) == first_cls
            and all(class_name(f) == "ContinuationFrame" for f in frames[start + 1:])
            and all(f.stream_id == sid for f in frames[start:])
            and all(not ("END_HEADERS" in f.flags) for f in frames[start:-1])
            and ("END_HEADERS" in frames[-1].flags)
            and all(f.body_len <= max_size for f in frames[start:]))


def max_concurrent(settings):
    return (setting_current(settings, S_MAX_CONCURRENT_STREAMS)
            if setting_has(settings, S_MAX_CONCURRENT_STREAMS) else 4294967297)


def SETTINGS_OK_WEAK(s):
    return all(len(s._settings[k]) >= 1 for k in s._settings)


# ---------------------------------------------------------------------------
# Layer-1 names for what the inbound header pipeline computes (C15/C17).  In proofs these are
# uninterpreted functions over abstract header lists (h2vc/hdrmodel.py hooks them); natively they
# run the pipeline stages themselves, so a replay evaluates the same clause text.
def hdr_in_result(headers, flags, normalize, validate, encoding):
    """The list _process_received_headers delivers: cookie-joined when `normalize`, decoded text when
    `encoding` is set (validation does not change it)."""
    from h2.utilities import normalize_inbound_headers
    from h2.stream import _decode_headers
    h = list(headers)
    if normalize:
        h = list(normalize_inbound_headers(h, flags))
    if encoding:
        h = list(_decode_headers(h, encoding))
    return h


def hdr_in_accepts(headers, flags, normalize, validate, encoding):
    """The pipeline consumes `headers` completely: conformant when `validate`, decodable when `encoding`."""
    from h2.utilities import normalize_inbound_headers, validate_headers
    from h2.stream import _decode_headers
    from h2.exceptions import ProtocolError
    h = list(headers)
    try:
        if normalize:
            h = list(normalize_inbound_headers(h, flags))
        if validate:
            h = list(validate_headers(h, flags))
        if encoding:
            h = list(_decode_headers(h, encoding))
    except (ProtocolError, UnicodeDecodeError):
        return False
    return True


def settings_header_of(settings):
    """The HTTP2-Settings header value a client derives from a settings dict (RFC 7540 section 3.2.1):
    base64url of the SETTINGS payload.  Symbolically: b64encode(ser_settings(dict)) over the assumed
    hyperframe / base64 contracts (h2vc/deps_model.py)."""
    import base64
    from hyperframe.frame import SettingsFrame
    f = SettingsFrame(0)
    for k, v in settings.items():
        f.settings[k] = v
    return base64.urlsafe_b64encode(f.serialize_body())


def frame_length_field(data):
    """The 24-bit length field of the frame header at the start of `data` (RFC 7540 section 4.1)."""
    return int.from_bytes(bytes(data[:3]), 'big')


def frame_header_valid(data):
    """hyperframe accepts the 9-byte frame header at the start of `data`."""
    from hyperframe.frame import Frame
    from hyperframe.exceptions import HyperframeError
    try:
        Frame.parse_frame_header(memoryview(bytes(data[:9])))
        return True
    except HyperframeError:
        return False


# ---------------------------------------------------------------------------
# Header rules (RFC 7540 section 8.1.2, RFC 8441; property statements C14 / C15 / C16) -- the oracle of layer 2.
# Field names / values are bytes or str; every predicate works on both and is restricted to what the interpreter
# translates (single-expression returns), except the few marked "hooked" that have a symbolic twin in h2vc/strmodel.py.
WS_CODES = (9, 10, 11, 12, 13, 32)
PSEUDO_NAMES = (b':method', ':method', b':scheme', ':scheme', b':authority', ':authority', b':path', ':path',
                b':status', ':status', b':protocol', ':protocol')


def is_name(x, lit):
    """x is the field name `lit` (given as str) in x's own string type."""
    return (x == lit.encode('ascii')) if isinstance(x, bytes) else (x == lit)


def is_connection_specific(x):
    """RFC 7540 8.1.2.2: connection-specific header fields."""
    return (is_name(x, "connection") or is_name(x, "proxy-connection") or is_name(x, "keep-alive")
            or is_name(x, "transfer-encoding") or is_name(x, "upgrade"))


def must_never_index(name, value):
    """C14: authorization, proxy-authorization and cookies shorter than 20 bytes are never-indexed."""
    return is_name(name, "authorization") or is_name(name, "proxy-authorization") or (is_name(name, "cookie") and len(value) < 20)


def is_pseudo(x):
    return x.startswith(b':') if isinstance(x, bytes) else x.startswith(':')


def is_known_pseudo(x):
    return (is_name(x, ":method") or is_name(x, ":scheme") or is_name(x, ":authority") or is_name(x, ":path")
            or is_name(x, ":status") or is_name(x, ":protocol"))


def seen(s, lit):
    return (lit in s) or (lit.encode('ascii') in s)


def pseudo_fields_acceptable(s, method, flags):
    """Which pseudo-header fields a complete block may / must carry (RFC 7540 8.1.2.1 - 8.1.2.4, RFC 8441 4):
    trailers none; responses :status and no request pseudo-header; requests :method, :scheme, :path, no :status,
    and :protocol only with CONNECT."""
    return (
        (not (seen(s, ":method") or seen(s, ":scheme") or seen(s, ":authority") or seen(s, ":path") or seen(s, ":status") or seen(s, ":protocol")))
        if flags.is_trailer else
        (seen(s, ":status") and not (seen(s, ":method") or seen(s, ":scheme") or seen(s, ":authority") or seen(s, ":path") or seen(s, ":protocol")))
        if flags.is_response_header else
        (seen(s, ":path") and seen(s, ":method") and seen(s, ":scheme") and not seen(s, ":status")
         and (method == b'CONNECT' or not seen(s, ":protocol"))))


def host_authority_ok(authority, host):
    """RFC 7540 8.1.2.3 as the library documents it: a request carries :authority or Host, and if both, they agree."""
    return (authority is not None or host is not None) and (authority is None or host is None or authority == host)


def ws_at_either_end(x):
    return len(x) > 0 and ((x[0] in WS_CODES) or (x[-1] in WS_CODES))


def as_bytes(v):
    return v if isinstance(v, bytes) else v.encode('utf-8')


def starts_with_1(v):
    return v.startswith(b'1') if isinstance(v, bytes) else v.startswith('1')


def has_ascii_upper(x):
    """hooked: some code point of x is in A..Z"""
    return any(65 <= c <= 90 for c in (x if isinstance(x, bytes) else x.encode('latin-1', 'replace')))


def header_class(h):
    """hooked: 'tuple' | 'HeaderTuple' | 'NeverIndexedHeaderTuple'"""
    return type(h).__name__


def stage_trace(seq):
    """hooked: the chain of lazy pipeline stages an abstract header sequence has been wrapped in (proof-only)."""
    return ''


def text_decodable(x, encoding):
    """hooked"""
    try:
        x.decode(encoding)
        return True
    except UnicodeDecodeError:
        return False


def is_decimal(x):
    """hooked: int(x, 10) succeeds"""
    try:
        int(x, 10)
        return True
    except ValueError:
        return False


def decimal_value(x):
    """hooked: int(x, 10)"""
    return int(x, 10)


def strlist_len(l):
    """hooked"""
    return len(l)


def strlist_is_appended(new, old, v):
    """hooked: new == old + [v]"""
    return list(new) == list(old) + [v]


def strlist_same(a, b):
    """hooked"""
    return list(a) == list(b)


def strlist_joined(l, sep):
    """hooked"""
    return sep.join(l)


def hdr_has_method(headers):
    """The header list carries a :method pseudo-header: utilities.extract_method_header is not None."""
    from h2.utilities import extract_method_header
    return extract_method_header(list(headers)) is not None


def hdr_is_informational(headers):
    """The header list is an informational (1xx) response: utilities.is_informational_response (layer 2 contract)."""
    from h2.utilities import is_informational_response
    return is_informational_response(list(headers))
