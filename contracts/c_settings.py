"""Contracts: h2.settings (C11, C12)."""
from h2vc.spec import contract

contract('h2.settings._validate_setting', props=['C12'],
    args={'setting': 'int', 'value': 'int'},
    ensures=[('total-spec', 'result == spec_valid_setting(setting, value)')],
    canary='result == 0')
