"""Contracts: H2Stream._build_headers_frames (C02, C13, C14) -- used MODULARLY by
H2Stream.send_headers / push_stream_in_band."""
import z3
from h2vc.spec import contract, modular
from h2vc.values import *  # noqa
from h2vc import hdrmodel

ST = 'h2.stream.H2Stream'
BHF = ST + '._build_headers_frames'


def stream_setup(I, loc):
    """A free-standing symbolic H2Stream with a config object."""
    o = I.heap.get(loc['self'])
    if 'config' not in o.fields or o.fields.get('config') is None:
        o.fields['config'] = I.sym_obj(I.class_named('h2.config.H2Configuration'), 'config')


def frames_shape(I, loc):
    """Result SHAPE for modular use: [first_frame] + 0..2 fresh CONTINUATION
    frames (everything else about them comes from the ensures clauses; the
    bound of 3 frames is the stated bound of this function's own check)."""
    n = I.choose([I.fresh('ncont', 'int') == i for i in range(3)], 'continuation-frames', names=['0', '1', '2'])
    items = [loc['first_frame']]
    from h2vc.deps_model import sym_frame
    for i in range(n):
        f = sym_frame(I, 'frame:ContinuationFrame', 'cont%d' % i)
        fo = I.heap.get(f)
        fo.fields['stream_id'] = I.fresh('cont%d.stream_id' % i, 'int')
        items.append(f)
    I.bounds_used.add('header blocks of at most 3 frames (encoded block <= 3 x max_outbound_frame_size)')
    # havoc what the callee may change on first_frame
    ff = I.heap.get(loc['first_frame'])
    ff.fields['data'] = I.new_abs('first_frame.data')
    fl = I.heap.get(ff.fields['flags'])
    fl.fields['set'] = dict(fl.fields['set'])
    fl.fields['set']['END_HEADERS'] = I.fresh('first.END_HEADERS', 'bool')
    I.g_enc = I.fresh('g_enc_after', 'int')
    I.g_nencode = I.fresh('g_nencode_after', 'int')
    return I.heap.alloc(ListObj(items))


def hdr_flags(I, loc):
    pass


contract(BHF, props=['C02', 'C13', 'C14', 'C29'],
    args={'headers': 'hdrlist', 'encoder': 'obj:hpack.hpack.Encoder', 'first_frame': 'frame:HeadersFrame',
          'hdr_validation_flags': 'hvflags'},
    setup=stream_setup, result=frames_shape,
    requires=['self.max_outbound_frame_size is not None', '16384 <= self.max_outbound_frame_size',
              'self.max_outbound_frame_size <= 16777215', 'self.stream_id >= 1',
              'not ("END_HEADERS" in first_frame.flags)'],
    let={'m': 'self.max_outbound_frame_size', 'enc0': 'g_enc'},
    ensures=[('first-is-first-frame', 'result[0] is first_frame', ['C02']),
             ('continuations-on-same-stream', 'all(class_name(f) == "ContinuationFrame" and f.stream_id == self.stream_id for f in result[1:])', ['C02']),
             ('end-headers-on-last-only', 'all(not ("END_HEADERS" in f.flags) for f in result[:-1]) and ("END_HEADERS" in result[-1].flags)', ['C02']),
             ('chunks-within-frame-size', 'all(len(f.data) <= m for f in result)', ['C02']),
             ('non-final-chunks-full', 'all(len(f.data) == m for f in result[:-1])', ['C02']),
             ('first-frame-otherwise-untouched', 'first_frame.stream_id == old(first_frame.stream_id) and ("END_STREAM" in first_frame.flags) == old("END_STREAM" in first_frame.flags) and ("PRIORITY" in first_frame.flags) == old("PRIORITY" in first_frame.flags) and ("PADDED" in first_frame.flags) == old("PADDED" in first_frame.flags) and first_frame.pad_length == old(first_frame.pad_length)', ['C02']),
             ('context-advanced-at-most-once', 'g_enc == enc0 or g_enc == enc0 + 1', ['C13']),
             # every emitted block went through the encoder exactly once: that call is also what carries a pending
             # dynamic-table-size update to the peer (RFC 7541 4.2), even for an empty header list
             ('encoded-exactly-once', 'g_nencode == old(g_nencode) + 1', ['C13']),
             ('block-nonempty', 'len(result) >= 1', ['C02', 'C29'])],
    raises=[dict(exc='ProtocolError', props=['C14', 'C13'],
                 when='self.config.validate_outbound_headers',
                 ensures=[('code', 'exc.error_code == PROTOCOL_ERROR')])],
    on_raise=[('compression-context-untouched', 'g_enc == enc0', ['C13'])],
    canary='len(result) == 0')
modular(BHF)


# ---------------------------------------------------------------------------
# H2Stream._process_received_headers -- used MODULARLY by receive_headers / receive_push_promise_in_band
PRH = ST + '._process_received_headers'
_PIPE = ('headers, header_validation_flags, self.config.normalize_inbound_headers, '
         'self.config.validate_inbound_headers, header_encoding')


def prh_result(I, loc):
    """Modular result: the abstract list hdr_in_result(...); pending lazy stages of the argument are forced
    first, exactly as list(headers) does."""
    hdrmodel.consume(I, loc['headers'])
    cfg = I.getattr(loc['self'], 'config')
    ok, res = hdrmodel.in_pipeline_terms(I, loc['headers'], loc['header_validation_flags'],
                                         I.getattr(cfg, 'normalize_inbound_headers'),
                                         I.getattr(cfg, 'validate_inbound_headers'), loc['header_encoding'])
    return hdrmodel.new_hdr(I, res)


contract(PRH, props=['C15', 'C17'],
    args={'headers': 'hdrlist', 'header_validation_flags': 'hvflags', 'header_encoding': 'optstr'},
    setup=stream_setup, result=prh_result,
    ensures=[('delivers-the-pipeline-result', 'result == hdr_in_result(%s)' % _PIPE, ['C15']),
             ('accepted-only-if-conformant-and-decodable', 'hdr_in_accepts(%s)' % _PIPE, ['C15'])],
    raises=[dict(exc='ProtocolError', iff=True, props=['C15', 'C17'], when='not hdr_in_accepts(%s)' % _PIPE,
                 ensures=[('code', 'exc.error_code == PROTOCOL_ERROR', ['C15', 'C18'])])],
    canary='False')
modular(PRH)
