"""Contracts: h2.windows (C04, C05) and utilities.guard_increment_window (C03, C12)."""
from h2vc.spec import contract

WM = 'h2.windows.WindowManager'

contract(WM + '.__init__', props=['C05', 'C04'],
    self_desc='obj:' + WM, args={'max_window_size': 'int'},
    requires=['0 <= max_window_size', 'max_window_size <= MAXWIN'],
    ensures=[('inv', 'WM_INV(self, 0)'),
             ('full', 'self.current_window_size == max_window_size and self.max_window_size == max_window_size')],
    canary='self.current_window_size == 0')

contract(WM + '.window_consumed', props=['C04', 'C05'],
    args={'size': 'int'}, ghost={'g_out': 'int'},
    requires=['WM_INV(self, g_out)', 'size >= 0'],
    ghost_update={'g_out': 'g_out + size'},
    ensures=[('inv', 'WM_INV(self, g_out)', ['C05']),
             ('fits', 'size <= old(self.current_window_size)', ['C04']),
             ('consumed', 'self.current_window_size == old(self.current_window_size) - size', ['C04'])],
    raises=[dict(exc='FlowControlError', when='size > self.current_window_size', iff=True, props=['C04'],
                 ensures=[('code', 'exc.error_code == FLOW_CONTROL_ERROR')])],
    unchanged=['self.max_window_size', 'self._bytes_processed'],
    canary='self.current_window_size == old(self.current_window_size)')

contract(WM + '.window_opened', props=['C04'],
    args={'size': 'int'},
    requires=['WM_RANGE(self)', 'size >= 1'],
    ensures=[('opened', 'self.current_window_size == old(self.current_window_size) + size'),
             ('range', 'self.current_window_size <= MAXWIN'),
             ('max', 'self.max_window_size == (self.current_window_size if self.current_window_size > old(self.max_window_size) else old(self.max_window_size))')],
    raises=[dict(exc='FlowControlError', when='self.current_window_size + size > MAXWIN', iff=True)],
    on_raise=[('window-unchanged', 'self.current_window_size == old(self.current_window_size)'),
              ('max-unchanged', 'self.max_window_size == old(self.max_window_size)')],
    unchanged=['self._bytes_processed'],
    canary='self.current_window_size == old(self.current_window_size)')

contract(WM + '.process_bytes', props=['C05'],
    args={'size': 'int'}, ghost={'g_out': 'int'},
    requires=['WM_INV(self, g_out)', '0 <= size', 'size <= g_out'],
    ghost_update={'g_out': 'g_out - size'},
    let={},
    ensures=[('inv', 'WM_INV(self, g_out)'),
             ('inc-nonneg', '(result is None) or result >= 0'),
             ('inc-le-acked', '(result is None) or result <= old(self._bytes_processed) + size'),
             ('window-adds-inc', 'self.current_window_size == old(self.current_window_size) + (0 if result is None else result)'),
             ('no-over-credit', 'self.current_window_size <= self.max_window_size and self.current_window_size <= MAXWIN'),
             ('no-deadlock', 'implies(g_out == 0 and self.max_window_size > 0, self.current_window_size > 0)'),
             ('max-unchanged', 'self.max_window_size == old(self.max_window_size)')],
    canary='result is None')

contract(WM + '._maybe_update_window', props=['C05'],
    args={}, ghost={'g_out': 'int'},
    requires=['WM_INV(self, g_out)'],
    ensures=[('inv', 'WM_INV(self, g_out)'),
             ('inc-bounds', '(result is None) or (0 <= result and result <= old(self._bytes_processed))'),
             ('window-adds-inc', 'self.current_window_size == old(self.current_window_size) + (0 if result is None else result)'),
             ('no-deadlock', 'implies(g_out == 0 and self.max_window_size > 0, self.current_window_size > 0)')],
    canary='result is None')

contract('h2.utilities.guard_increment_window', props=['C03', 'C12'],
    args={'current': 'int', 'increment': 'int'},
    ensures=[('sum', 'result == current + increment'), ('range', 'result <= MAXWIN')],
    raises=[dict(exc='FlowControlError', when='current + increment > MAXWIN', iff=True,
                 ensures=[('code', 'exc.error_code == FLOW_CONTROL_ERROR')])],
    canary='result == current')
