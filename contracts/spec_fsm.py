"""Reference machines for C06/C07/C08/C19/C22/C24, written from RFC 7540
section 5.1 / 6 / 8.1 / 8.2, RFC 7838 and the property statements -- NOT from
h2's `_transitions`.  States and inputs are plain integers here on purpose.

Documented leniencies of the library that this oracle adopts (each with its
source), everything else is the RFC:
  L1  DATA on a stream that is not open / half-closed(local) is a *stream*
      error (RST_STREAM STREAM_CLOSED), incl. idle and reserved streams
      (CHANGELOG 2.1.0: "Receiving DATA frames on streams not in the OPEN or
      HALF_CLOSED_LOCAL states now causes a stream reset").
  L2  HEADERS / PUSH_PROMISE in half-closed(remote) is a stream error
      (CHANGELOG 2.1.0).
  L3  WINDOW_UPDATE and RST_STREAM on a closed stream are ignored, without the
      RFC's "short period" timer (CHANGELOG 3.1.1).
  L4  ALTSVC that cannot be used is ignored rather than rejected (RFC 7838
      section 4; CHANGELOG 2.3.0).
  L5  PUSH_PROMISE is driven on two streams: the parent (open /
      half-closed) and the promised one (idle -> reserved)
      (comment block above `_transitions`, docs).
"""

# stream states
IDLE, RES_REMOTE, RES_LOCAL, OPEN, HC_REMOTE, HC_LOCAL, CLOSED = 0, 1, 2, 3, 4, 5, 6
# stream inputs
S_HEADERS, S_PUSH, S_RST, S_DATA, S_WU, S_ES = 0, 1, 2, 3, 4, 5
R_HEADERS, R_PUSH, R_RST, R_DATA, R_WU, R_ES, R_CONT = 6, 7, 8, 9, 10, 11, 12
S_INFO, R_INFO, S_ALTSVC, R_ALTSVC, UP_CLIENT, UP_SERVER = 13, 14, 15, 16, 17, 18
# closed_by
CB_SEND_ES, CB_RECV_ES, CB_SEND_RST, CB_RECV_RST = 0, 1, 2, 3
# outcome kinds
K_OK = 0          # accepted
K_PROTO = 1       # ProtocolError (API misuse when sending; connection error PROTOCOL_ERROR when receiving)
K_CLOSED = 2      # StreamClosedError, no events (send on closed stream / frame after close)
K_RST = 3         # stream error: StreamClosedError carrying one local StreamReset, closed_by = SEND_RST_STREAM


def live(st):
    """States in which the stream exists and is not closed (RFC 5.1)."""
    return st == RES_REMOTE or st == RES_LOCAL or st == OPEN or st == HC_REMOTE or st == HC_LOCAL


def rfc_kind(st, inp, client, hs, ts, hr, tr, cb):
    """Outcome kind of input `inp` in RFC state `st` with message flags."""
    return (
        # ---- local actions -------------------------------------------------
        (K_OK if st == IDLE else
         (K_OK if (not hs and client is False) else K_PROTO) if st == RES_LOCAL else
         ((K_OK if client is False else K_PROTO) if not hs else (K_OK if not ts else K_PROTO))
         if (st == OPEN or st == HC_REMOTE) else
         K_CLOSED if st == CLOSED else K_PROTO) if inp == S_HEADERS else
        ((K_OK if not hs else K_PROTO) if (st == OPEN or st == HC_REMOTE) else K_PROTO) if inp == S_INFO else
        ((K_OK if client is None else K_PROTO) if st == IDLE else
         (K_OK if client is not True else K_PROTO) if (st == OPEN or st == HC_REMOTE) else K_PROTO) if inp == S_PUSH else
        (K_OK if live(st) else K_CLOSED if st == CLOSED else K_PROTO) if inp == S_RST else
        ((K_OK if hs else K_PROTO) if (st == OPEN or st == HC_REMOTE) else K_CLOSED if st == CLOSED else K_PROTO) if inp == S_DATA else
        (K_OK if live(st) else K_CLOSED if st == CLOSED else K_PROTO) if inp == S_WU else
        ((K_OK if hs else K_PROTO) if (st == OPEN or st == HC_REMOTE) else K_CLOSED if st == CLOSED else K_PROTO) if inp == S_ES else
        ((K_OK if not hs else K_PROTO) if (st == RES_LOCAL or st == OPEN or st == HC_REMOTE or st == HC_LOCAL)
         else K_PROTO) if inp == S_ALTSVC else
        (K_OK if st == IDLE else K_PROTO) if (inp == UP_CLIENT or inp == UP_SERVER) else
        # ---- received frames -----------------------------------------------
        (K_OK if st == IDLE else
         (K_OK if client is True else K_PROTO) if st == RES_REMOTE else
         ((K_OK if client is True else K_PROTO) if not hr else (K_OK if not tr else K_PROTO))
         if (st == OPEN or st == HC_LOCAL) else
         K_RST if st == HC_REMOTE else                      # L2
         K_CLOSED if st == CLOSED else K_PROTO) if inp == R_HEADERS else
        # an interim (1xx) response is a HEADERS frame: on a closed stream it is classified like any other HEADERS
        # frame (RFC 7540 5.1 'closed'; C20: after our own reset it is a frame racing the reset, never a connection error)
        ((K_OK if not hr else K_PROTO) if (st == OPEN or st == HC_LOCAL) else K_CLOSED if st == CLOSED else K_PROTO) if inp == R_INFO else
        ((K_OK if client is None else K_PROTO) if st == IDLE else
         (K_OK if client is True else K_PROTO) if (st == OPEN or st == HC_LOCAL) else
         K_RST if st == HC_REMOTE else                      # L2
         (K_CLOSED if cb == CB_SEND_RST else K_PROTO) if st == CLOSED else K_PROTO) if inp == R_PUSH else
        (K_OK if (live(st) or st == CLOSED) else K_PROTO) if inp == R_RST else              # L3
        ((K_OK if hr else K_PROTO) if (st == OPEN or st == HC_LOCAL) else
         K_CLOSED if st == CLOSED else K_RST) if inp == R_DATA else                          # L1
        (K_OK if (st == RES_LOCAL or st == OPEN or st == HC_REMOTE or st == HC_LOCAL or st == CLOSED)
         else K_PROTO) if inp == R_WU else                                                   # L3
        (K_OK if (st == OPEN or st == HC_LOCAL or st == CLOSED) else K_PROTO) if inp == R_ES else
        K_OK if inp == R_ALTSVC else                                                         # L4
        K_PROTO)                                                                             # R_CONT and unknown


def rfc_next(st, inp, kind):
    """State after the input, given its outcome kind."""
    return (
        CLOSED if kind != K_OK else
        (OPEN if st == IDLE else HC_REMOTE if st == RES_LOCAL else st) if inp == S_HEADERS else
        (RES_LOCAL if st == IDLE else st) if inp == S_PUSH else
        CLOSED if inp == S_RST else
        (HC_LOCAL if st == OPEN else CLOSED) if inp == S_ES else
        HC_LOCAL if inp == UP_CLIENT else
        HC_REMOTE if inp == UP_SERVER else
        (OPEN if st == IDLE else HC_LOCAL if st == RES_REMOTE else st) if inp == R_HEADERS else
        (RES_REMOTE if st == IDLE else st) if inp == R_PUSH else
        CLOSED if inp == R_RST else
        (HC_REMOTE if st == OPEN else CLOSED) if inp == R_ES else
        st)


def rfc_closed_by(st, inp, kind, cb):
    """closed_by after the input (None encoded by passing cb through)."""
    return (
        CB_SEND_RST if kind == K_RST else
        cb if kind != K_OK else
        CB_SEND_RST if inp == S_RST else
        (CB_RECV_RST if st != CLOSED else cb) if inp == R_RST else
        (CB_SEND_ES if st == HC_REMOTE else cb) if inp == S_ES else
        (CB_RECV_ES if st == HC_LOCAL else cb) if inp == R_ES else
        cb)


def rfc_sets_closed_by(st, inp, kind):
    return (kind == K_RST
            or (kind == K_OK and (inp == S_RST or (inp == R_RST and st != CLOSED)
                                  or (inp == S_ES and st == HC_REMOTE) or (inp == R_ES and st == HC_LOCAL))))


def rfc_event(st, inp, kind, client, hs, ts, hr, tr):
    """Class name of the single event an accepted input reports ('' = none)."""
    return (
        '' if kind != K_OK else
        ('_RequestSent' if st == IDLE else ('_ResponseSent' if not hs else '_TrailersSent')) if inp == S_HEADERS else
        '_ResponseSent' if inp == S_INFO else
        ('' if st == IDLE else '_PushedRequestSent') if inp == S_PUSH else
        '_RequestSent' if inp == UP_CLIENT else
        'RequestReceived' if inp == UP_SERVER else
        ('RequestReceived' if st == IDLE else ('ResponseReceived' if not hr else 'TrailersReceived')) if inp == R_HEADERS else
        'InformationalResponseReceived' if inp == R_INFO else
        ('' if st == IDLE else 'PushedStreamReceived') if inp == R_PUSH else
        ('StreamReset' if st != CLOSED else '') if inp == R_RST else
        'DataReceived' if inp == R_DATA else
        ('WindowUpdated' if st != CLOSED else '') if inp == R_WU else
        ('StreamEnded' if st != CLOSED else '') if inp == R_ES else
        ('AlternativeServiceAvailable'
         if ((st == RES_REMOTE or st == OPEN or st == HC_REMOTE or st == HC_LOCAL) and client is not False and not hr)
         else '') if inp == R_ALTSVC else
        '')


# flags after an accepted input (unchanged otherwise)
def rfc_client_after(st, inp, kind, client):
    return (client if kind != K_OK else
            True if ((inp == S_HEADERS and st == IDLE) or inp == UP_CLIENT or (inp == R_PUSH and st == IDLE)) else
            False if ((inp == R_HEADERS and st == IDLE) or inp == UP_SERVER or (inp == S_PUSH and st == IDLE)) else
            client)


def rfc_hs_after(st, inp, kind, hs):
    return (hs if kind != K_OK else
            True if (inp == S_HEADERS or inp == UP_CLIENT or (inp == R_PUSH and st == IDLE)) else hs)


def rfc_ts_after(st, inp, kind, hs, ts):
    return (ts if kind != K_OK else
            True if (inp == S_HEADERS and st != IDLE and st != RES_LOCAL and hs) else ts)


def rfc_hr_after(st, inp, kind, hr):
    return (hr if kind != K_OK else
            True if (inp == R_HEADERS or inp == UP_SERVER or (inp == S_PUSH and st == IDLE)) else hr)


def rfc_tr_after(st, inp, kind, hr, tr):
    return (tr if kind != K_OK else
            True if (inp == R_HEADERS and st != IDLE and st != RES_REMOTE and hr) else tr)


# ---- connection machine (C19, C08 role gate) ---------------------------------
C_IDLE, C_CLIENT_OPEN, C_SERVER_OPEN, C_CLOSED = 0, 1, 2, 3
CI_SEND_HEADERS, CI_SEND_PUSH, CI_SEND_DATA, CI_SEND_GOAWAY, CI_SEND_WU, CI_SEND_PING = 0, 1, 2, 3, 4, 5
CI_SEND_SETTINGS, CI_SEND_RST, CI_SEND_PRIORITY = 6, 7, 8
CI_RECV_HEADERS, CI_RECV_PUSH, CI_RECV_DATA, CI_RECV_GOAWAY, CI_RECV_WU, CI_RECV_PING = 9, 10, 11, 12, 13, 14
CI_RECV_SETTINGS, CI_RECV_RST, CI_RECV_PRIORITY, CI_SEND_ALTSVC, CI_RECV_ALTSVC = 15, 16, 17, 18, 19


def conn_neutral(inp):
    """Frames either endpoint may exchange at any time before close."""
    return (inp == CI_SEND_SETTINGS or inp == CI_RECV_SETTINGS or inp == CI_SEND_WU or inp == CI_RECV_WU
            or inp == CI_SEND_PING or inp == CI_RECV_PING or inp == CI_SEND_PRIORITY or inp == CI_RECV_PRIORITY)


def conn_accepts(st, inp):
    return (
        (inp == CI_SEND_GOAWAY or inp == CI_RECV_GOAWAY) or
        (st == C_IDLE and (conn_neutral(inp) or inp == CI_SEND_HEADERS or inp == CI_RECV_HEADERS
                           or inp == CI_SEND_ALTSVC or inp == CI_RECV_ALTSVC)) or
        (st == C_CLIENT_OPEN and (conn_neutral(inp) or inp == CI_SEND_HEADERS or inp == CI_SEND_DATA
                                  or inp == CI_SEND_RST or inp == CI_RECV_HEADERS or inp == CI_RECV_PUSH
                                  or inp == CI_RECV_DATA or inp == CI_RECV_RST or inp == CI_RECV_ALTSVC)) or
        (st == C_SERVER_OPEN and (conn_neutral(inp) or inp == CI_SEND_HEADERS or inp == CI_SEND_PUSH
                                  or inp == CI_SEND_DATA or inp == CI_SEND_RST or inp == CI_SEND_ALTSVC
                                  or inp == CI_RECV_HEADERS or inp == CI_RECV_DATA or inp == CI_RECV_RST
                                  or inp == CI_RECV_ALTSVC)))


def conn_next(st, inp):
    return (
        C_CLOSED if not conn_accepts(st, inp) else
        C_CLOSED if (inp == CI_SEND_GOAWAY or inp == CI_RECV_GOAWAY) else
        (C_CLIENT_OPEN if (inp == CI_SEND_HEADERS or inp == CI_RECV_ALTSVC) else
         C_SERVER_OPEN if (inp == CI_RECV_HEADERS or inp == CI_SEND_ALTSVC) else C_IDLE) if st == C_IDLE else
        st)


def class_name(x):
    return type(x).__name__


def SM_INV(sm):
    """Representation invariant of H2StreamStateMachine (reachable
    configurations); proved preserved by process_input on every exit."""
    return (sm.headers_sent is not False and sm.trailers_sent is not False
            and sm.headers_received is not False and sm.trailers_received is not False
            and implies(sm.trailers_sent, sm.headers_sent) and implies(sm.trailers_received, sm.headers_received)
            and implies(sm.state.value != CLOSED, sm.stream_closed_by is None)
            and implies(sm.client is None, sm.state.value == IDLE or sm.state.value == CLOSED)
            and implies(sm.state.value == IDLE, sm.client is None and not sm.headers_sent and not sm.headers_received)
            and implies(sm.state.value == RES_LOCAL, sm.client is False and sm.headers_received and not sm.headers_sent)
            and implies(sm.state.value == RES_REMOTE, sm.client is True and sm.headers_sent and not sm.headers_received)
            and implies(sm.client is True and sm.state.value != CLOSED, sm.headers_sent)
            and implies(sm.client is False and sm.state.value != CLOSED, sm.headers_received))
