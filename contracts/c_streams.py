"""Contracts: stream bookkeeping -- _open_streams (C10, C27), used MODULARLY by its callers."""
import z3
from h2vc.spec import contract, modular
from h2vc.values import *  # noqa
from .common import conn_setup
from .c_send import CONN

OS = CONN + '._open_streams'


from .common import conn_setup_bounded_streams as bounded_streams_setup


contract(OS, props=['C10', 'C27', 'C20'],
    args={'remainder': 'int'}, setup=bounded_streams_setup, result='int',
    requires=['GI(self)', 'remainder == 0 or remainder == 1'],
    modifies=['mapdom:self.streams', 'mapall:self._closed_streams'],
    ensures=[('counts-open-streams', 'result == old(count_open(self.streams, remainder))', ['C10']),
             ('nonneg', 'result >= 0', ['C10']),
             ('removes-exactly-the-closed-streams', 'all((k in self.streams) == (old(self.streams[k].state_machine.state) != StreamState.CLOSED) for k in old(self.streams))', ['C10', 'C27']),
             ('adds-no-stream', 'all(k in old(self.streams) for k in self.streams)', ['C10', 'C27']),
             ('remaining-untouched', 'all(self.streams[k].state_machine.state == old(self.streams[k].state_machine.state) for k in self.streams)', ['C10']),
             ('closed-memory-capped', 'len(self._closed_streams) <= self._closed_streams._size_limit', ['C27']),
             ('GI', 'GI(self)')],
    raises=[],
    unchanged=['self.highest_outbound_stream_id', 'self.highest_inbound_stream_id', 'self.state_machine.state'],
    canary='result == 0',
    note='body: bounded stand-in (<= 3 streams); callers use this contract modularly')
modular(OS)


for _n, _r in (('open_outbound_streams', 'own_parity(self)'), ('open_inbound_streams', '1 - own_parity(self)')):
    contract(CONN + '.' + _n, props=['C10', 'C29', 'C27'],
        args={}, setup=conn_setup, requires=['GI(self)'],
        ensures=[('counts-the-open-streams-of-that-direction', 'result == old(count_open(self.streams, %s))' % _r, ['C10']),
                 ('closed-streams-leave-the-live-table', 'all(self.streams[k].state_machine.state != StreamState.CLOSED for k in self.streams)', ['C27', 'C10']),
                 ('GI', 'GI(self)')],
        raises=[], unchanged=['self.highest_outbound_stream_id', 'self.highest_inbound_stream_id', 'self._data_to_send'],
        canary='result == 7')

contract(CONN + '.inbound_flow_control_window', props=['C04', 'C29'],
    args={}, setup=conn_setup, requires=['GI(self)'],
    ensures=[('is-the-connection-window', 'result == self._inbound_flow_control_window_manager.current_window_size', ['C04'])],
    raises=[], unchanged=['self._data_to_send'], canary='result == 7')
