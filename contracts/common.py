"""Shared pre-state set-up for H2Connection methods."""
import ast
from h2vc.values import *  # noqa


def conn_setup(I, loc):
    """Complete a symbolic H2Connection: dispatch table built from the dict
    literal in the real __init__, well-formedness of modelled sub-objects."""
    self_ = loc['self']
    o = I.heap.get(self_)
    ci = o.cls
    init = I.P.lookup_method(ci, '__init__')
    for st in ast.walk(init.node):
        if isinstance(st, ast.Assign) and isinstance(st.targets[0], ast.Attribute) \
                and st.targets[0].attr == '_frame_dispatch_table':
            from h2vc.core import Frame
            I.frames.append(Frame(init, {'self': self_}, init.module))
            try:
                o.fields['_frame_dispatch_table'] = I.eval(st.value)
            finally:
                I.frames.pop()
    # SizeLimitDict: size limit is the class constant MAX_CLOSED_STREAMS (set in __init__)
    return None


def explicit_keys(I, mref, nmax, label, required=(), note=None):
    """BOUNDED STAND-IN helper: give a symbolic map an explicit key list of at
    most `nmax` extra distinct symbolic keys (plus the `required` concrete
    ones), so that loops over it can be unrolled exactly."""
    import z3
    m = I.heap.get(mref)
    n = I.choose([I.fresh('n_' + label, 'int') == i for i in range(nmax + 1)], 'keys-in-' + label,
                 names=[str(i) for i in range(nmax + 1)])
    keys = list(required) + [I.fresh('%s_key%d' % (label, i), 'int') for i in range(n)]
    for i, k in enumerate(keys):
        for j in range(i):
            I.assume(z3.IntVal(keys[j]) != k if isinstance(keys[j], int) else keys[j] != k)
    dom = z3.K(z3.IntSort(), z3.BoolVal(False))
    for k in keys:
        dom = z3.Store(dom, k, z3.BoolVal(True))
    m.dom = dom
    m.explicit_keys = keys
    m.size = len(keys)
    I.bounds_used.add(note or ('%s: dictionaries of at most %d%s entries' % (label, nmax, (' + %d fixed' % len(required)) if required else '')))
    return keys


def conn_setup_bounded_streams(I, loc):
    conn_setup(I, loc)
    o = I.heap.get(loc['self'])
    explicit_keys(I, o.fields['streams'], 3, 'streams', note='loops over self.streams verified for at most 3 streams')
