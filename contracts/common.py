"""Shared pre-state set-up for H2Connection methods."""
import ast
from h2vc.values import *  # noqa


def conn_setup(I, loc):
    """Complete a symbolic H2Connection: dispatch table built from the dict
    literal in the real __init__, well-formedness of modelled sub-objects."""
    self_ = loc['self']
    o = I.heap.get(self_)
    ci = o.cls
    init = I.P.lookup_method(ci, '__init__')
    for st in ast.walk(init.node):
        if isinstance(st, ast.Assign) and isinstance(st.targets[0], ast.Attribute) \
                and st.targets[0].attr == '_frame_dispatch_table':
            from h2vc.core import Frame
            I.frames.append(Frame(init, {'self': self_}, init.module))
            try:
                o.fields['_frame_dispatch_table'] = I.eval(st.value)
            finally:
                I.frames.pop()
    # SizeLimitDict: size limit is the class constant MAX_CLOSED_STREAMS (set in __init__)
    return None
