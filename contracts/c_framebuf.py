"""Contracts: h2.frame_buffer.FrameBuffer (C17, C21, C27) and H2Connection.receive_data (C17, C18, C19, C21)."""
import z3
from h2vc.spec import contract, modular
from h2vc.values import *  # noqa
from h2vc.deps_model import sym_framebuf, opaque_framebuf, header_length_term, header_valid_term
from h2vc.hdrmodel import hook
from .common import conn_setup
from .c_send import CONN
from .c_recv_headers import SOK
from .c_settings2 import NO_PENDING_REMOTE
from .c_recv_frame import any_frame

FB = 'h2.frame_buffer.FrameBuffer'


def fb_setup(I, loc):
    o = I.heap.get(loc['self'])
    o.fields['_headers_buffer'] = sym_framebuf(I, 'framebuf', 'hb')


def fb_opaque(I, loc):
    I.heap.get(loc['self']).fields['_headers_buffer'] = opaque_framebuf(I)


@hook('spec.specfns.frame_length_field')
def h_frame_length_field(I, fi, args, kwargs, node):
    return header_length_term(I, args[0])


@hook('spec.specfns.frame_header_valid')
def h_frame_header_valid(I, fi, args, kwargs, node):
    return header_valid_term(I, args[0])


# a frame error may be reported as soon as it is decidable from the bytes present whatever follows: a header that
# does not parse once its 9 bytes are there, everything else only once the whole frame is there
DECIDABLE = 'len(self.data) >= 9 and (not frame_header_valid(self.data) or len(self.data) >= 9 + frame_length_field(self.data))'
COMPLETE = 'len(self.data) >= 9 and len(self.data) >= 9 + frame_length_field(self.data)'

contract(FB + '.add_data', props=['C21', 'C17'],
    args={'data': 'bytes'},
    requires=['self._preamble_len >= 0', 'self._preamble_len == len(self._preamble)'],
    let={'k': 'min(self._preamble_len, len(data))'},
    ensures=[('preamble-prefix-consumed', 'self._preamble_len == old(self._preamble_len) - k and len(self._preamble) == self._preamble_len', ['C21']),
             ('rest-buffered', 'len(self.data) == old(len(self.data)) + len(data) - k', ['C21']),
             ('buffered-bytes-are-the-suffix', 'self.data == old(self.data) + data[k:]', ['C21']),
             ('preamble-matched', 'old(self._preamble[:k]) == data[:k]', ['C21'])],
    raises=[dict(exc='ProtocolError', iff=True, props=['C21', 'C17', 'C18'], when='self._preamble[:k] != data[:k]',
                 ensures=[('code', 'exc.error_code == PROTOCOL_ERROR', ['C18'])])],
    on_raise=[('nothing-buffered', 'self.data == old(self.data) and self._preamble_len == old(self._preamble_len)', ['C21'])],
    unchanged=['self.max_frame_size'],
    canary='len(self.data) == old(len(self.data))')

contract(FB + '._validate_frame_length', props=['C18', 'C27', 'C21'],
    args={'length': 'int'},
    ensures=[('within-limit', 'length <= self.max_frame_size')],
    raises=[dict(exc='FrameTooLargeError', iff=True, when='length > self.max_frame_size', props=['C18', 'C27'],
                 ensures=[('code', 'exc.error_code == FRAME_SIZE_ERROR', ['C18'])])],
    unchanged=['self.max_frame_size', 'self.data'], canary='length == 0')

contract(FB + '.__next__', props=['C17', 'C21', 'C27', 'C18'],
    args={}, setup=fb_setup, result=lambda I, loc: any_frame(I, 'anyframe', 'next_frame'),
    modifies=['field|self.data|bytes', lambda I, loc: fb_opaque(I, loc)],
    requires=['len(self._headers_buffer) <= 64', 'self.max_frame_size >= 0'],
    # every recursive call has swallowed one more frame of an unfinished header block, and a block of more than
    # CONTINUATION_BACKLOG frames is refused: the recursion depth is bounded by 65 whatever the peer sends
    decreases='65 - len(self._headers_buffer)',
    ensures=[('yields-a-frame', 'result is not None', ['C17']),
             ('header-block-complete', 'len(self._headers_buffer) == 0', ['C27', 'C21']),
             ('consumes-at-least-one-frame', 'len(self.data) <= old(len(self.data)) - 9', ['C21']),
             ('only-from-a-complete-frame', 'old(%s)' % COMPLETE, ['C21'])],
    raises=[dict(exc='StopIteration', props=['C21']),
            dict(exc='FrameTooLargeError', props=['C18', 'C27', 'C21'], when=COMPLETE,
                 ensures=[('code', 'exc.error_code == FRAME_SIZE_ERROR', ['C18'])]),
            dict(exc='FrameDataMissingError', props=['C18', 'C21'], when=COMPLETE,
                 ensures=[('code', 'exc.error_code == FRAME_SIZE_ERROR', ['C18'])]),
            dict(exc='ProtocolError', props=['C17', 'C21', 'C18'], when=DECIDABLE,
                 ensures=[('code', 'exc.error_code == PROTOCOL_ERROR', ['C18'])]),
            dict(exc='hyperframe.exceptions.InvalidPaddingError', props=['C17'], when=COMPLETE)],
    on_raise=[# an oversize frame is refused before any of it is consumed (a later frame of the same call may be the
              # oversize one when the first was a swallowed header-block frame: then data has shrunk)
              ('frame-too-large-is-about-the-announced-length', 'implies(class_name(exc) == "FrameTooLargeError" and len(self.data) == old(len(self.data)), old(frame_length_field(self.data)) > self.max_frame_size)', ['C18', 'C27', 'C21']),
              ('data-never-grows', 'len(self.data) <= old(len(self.data))', ['C21']),
              ('backlog-bounded', 'implies(class_name(exc) == "StopIteration", len(self._headers_buffer) <= 64)', ['C27']),
              ('incomplete-frame-changes-nothing', 'implies(not old(%s) and class_name(exc) == "StopIteration", self.data == old(self.data) and len(self._headers_buffer) == old(len(self._headers_buffer)))' % COMPLETE, ['C21'])],
    unchanged=['self.max_frame_size'],
    canary='len(self.data) == old(len(self.data))')


# ---------------------------------------------------------------------------
# H2Connection.receive_data: the loop over parsed frames by an inductive invariant; FrameBuffer.__next__ and
# _receive_frame are used through their contracts.
modular(FB + '.__next__')
modular(FB + '.add_data')
modular(CONN + '._receive_frame')
IB = 'self.incoming_buffer'


def recv_data_setup(I, loc):
    conn_setup(I, loc)
    fb_opaque(I, {'self': I.getattr(loc['self'], 'incoming_buffer')})


def havoc_conn_keep_buffer_shape(I, loc):
    from .c_recv_frame import havoc_connection
    havoc_connection(I, loc)
    ib = I.getattr(loc['self'], 'incoming_buffer')
    I.setattr(ib, 'data', I.new_abs('buffered'))
    fb_opaque(I, {'self': ib})
    conn_setup(I, loc)


INV = ['GI(self)', 'SETTINGS_OK(self.local_settings)', 'SETTINGS_OK(self.remote_settings)', NO_PENDING_REMOTE,
       'len(%s._headers_buffer) <= 64' % IB,
       ('frame-size-limit-in-force-is-the-acknowledged-one', '%s.max_frame_size == self.max_inbound_frame_size' % IB, ['C21', 'C11']),
       'g_ngoaway == ng0', 'g_nframes >= n0', 'self.highest_inbound_stream_id >= hi0',
       'implies(cst == C_CLOSED, g_nframes == n0 and self.state_machine.state.value == C_CLOSED)']
PRE_OK = ('%s._preamble[:min(%s._preamble_len, len(data))] == data[:min(%s._preamble_len, len(data))]' % (IB, IB, IB))

contract(CONN + '.receive_data', props=['C17', 'C18', 'C19', 'C21', 'C29'],
    args={'data': 'bytes'}, setup=recv_data_setup,
    requires=SOK + [NO_PENDING_REMOTE, 'len(%s._headers_buffer) <= 64' % IB, '%s._preamble_len >= 0' % IB,
                    '%s._preamble_len == len(%s._preamble)' % (IB, IB)],
    let={'cst': 'self.state_machine.state.value', 'n0': 'g_nframes', 'ng0': 'g_ngoaway', 'hi0': 'self.highest_inbound_stream_id',
         'pre_ok': PRE_OK},
    loops={'self.incoming_buffer': dict(invariant=INV, modifies=[havoc_conn_keep_buffer_shape], locals={'events': 'list'})},
    ensures=[('returns-events', 'len(result) >= 0', ['C17']),
             ('no-goaway-without-a-connection-error', 'g_ngoaway == ng0', ['C18']),
             ('closed-connection-emits-nothing', 'implies(cst == C_CLOSED, g_nframes == n0)', ['C19']),
             ('GI', 'GI(self)')],
    raises=[dict(exc='ProtocolError', props=['C17', 'C18'])],
    on_raise=[('exactly-one-goaway', 'implies(pre_ok, g_ngoaway == ng0 + 1)', ['C18']),
              ('goaway-is-the-last-frame', 'implies(pre_ok, class_name(g_out[-1]) == "GoAwayFrame" and g_out[-1].stream_id == 0)', ['C18']),
              ('goaway-carries-the-error-code', 'implies(pre_ok, g_out[-1].error_code == exc.error_code)', ['C18']),
              ('goaway-names-the-highest-peer-stream', 'implies(pre_ok, g_out[-1].last_stream_id == self.highest_inbound_stream_id)', ['C18']),
              ('connection-closed', 'implies(pre_ok, self.state_machine.state.value == C_CLOSED)', ['C18', 'C19']),
              ('invalid-preface-emits-nothing', 'implies(not pre_ok, g_nframes == n0)', ['C18'])],
    canary='False')


# ---------------------------------------------------------------------------
# C21 lemma L1 (DESIGN 4 C21): feeding a || b in two calls of add_data equals feeding it in one.  A lemma over
# add_data's FUNCTIONAL postcondition (proved above on the real body): with k = min(len(preamble), len(x)) the call
# succeeds iff preamble[:k] == x[:k] and then preamble' = preamble[k:], data' = data ++ x[k:].  Three length cases
# x three goals; cvc5 decides each in about a second (z3 leaves most unknown).
from h2vc.spec import zlemma


def _split_lemma(case, goal):
    def build():
        P, D, a, b = z3.Strings('preamble data a b')

        def step(P, D, x):
            k = z3.If(z3.Length(P) < z3.Length(x), z3.Length(P), z3.Length(x))
            return (z3.SubString(P, 0, k) == z3.SubString(x, 0, k), z3.SubString(P, k, z3.Length(P) - k),
                    z3.Concat(D, z3.SubString(x, k, z3.Length(x) - k)))
        ok1, P1, D1 = step(P, D, a)
        ok2, P2, D2 = step(P1, D1, b)
        okc, Pc, Dc = step(P, D, z3.Concat(a, b))
        la, lb, lp = z3.Length(a), z3.Length(b), z3.Length(P)
        cases = {'first-chunk-covers-the-preface': la >= lp, 'second-chunk-completes-the-preface': z3.And(la < lp, la + lb >= lp),
                 'preface-still-incomplete': la + lb < lp}
        goals = {'same-verdict': z3.And(ok1, ok2) == okc, 'same-remaining-preface': z3.Implies(okc, P2 == Pc),
                 'same-buffered-bytes': z3.Implies(okc, D2 == Dc)}
        return [cases[case]], goals[goal]
    return build


for _c in ('first-chunk-covers-the-preface', 'second-chunk-completes-the-preface', 'preface-still-incomplete'):
    for _g in ('same-verdict', 'same-remaining-preface', 'same-buffered-bytes'):
        zlemma('add_data-split[%s,%s]' % (_c, _g), ['C21'], _split_lemma(_c, _g), prefer='cvc5',
               note='add_data(a); add_data(b) and add_data(a + b) from equal buffer states: %s, case %s' % (_g, _c))
