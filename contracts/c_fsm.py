"""Contracts: the two state machines (C06, C07, C08, C19, C22, C24)."""
from h2vc.spec import contract, spec_module, modular
import os
spec_module(os.path.join(os.path.dirname(__file__), 'spec_fsm.py'))


def concretize_state_and_input(I, loc):
    """Case split: one sub-verification per concrete (state, input) pair --
    complete over the finite domain (table-case obligations)."""
    loc['input_'] = I.concretize_enum(loc['input_'], 'case-input')
    o = I.heap.get(loc['self'])
    o.fields['state'] = I.concretize_enum(o.fields['state'], 'case-state')


SM = 'h2.stream.H2StreamStateMachine'
_K = 'rfc_kind(st, inp, cl, hs, ts, hr, tr, cb)'
contract(SM + '.process_input', props=['C06'],
    args={'input_': 'enum:StreamInputs'},
    setup=concretize_state_and_input,
    # flags only ever hold None or True (headers/trailers) -- class invariant, proved on every exit below
    requires=['SM_INV(self)'],
    let={'st': 'self.state.value', 'inp': 'input_.value', 'cl': 'self.client',
         'hs': 'self.headers_sent', 'ts': 'self.trailers_sent', 'hr': 'self.headers_received',
         'tr': 'self.trailers_received',
         'cb': '(-1 if self.stream_closed_by is None else self.stream_closed_by.value)',
         'k': _K},
    ensures=[('accepted', 'k == K_OK', ['C06', 'C08']),
             ('next-state', 'self.state.value == rfc_next(st, inp, k)', ['C06', 'C08', 'C22']),
             ('closed-by', '(-1 if self.stream_closed_by is None else self.stream_closed_by.value) == rfc_closed_by(st, inp, k, cb)', ['C06']),
             # the received-event grammar (C07) and the treatment of racing frames (C20) rest on the transitions taken
             # for RECEIVED inputs (6..12 RECV_*, 14 RECV_INFORMATIONAL_HEADERS, 16 RECV_ALTERNATIVE_SERVICE)
             ('received-input-accepted', 'implies((6 <= inp and inp <= 12) or inp == 14 or inp == 16, k == K_OK)', ['C07', 'C20']),
             ('next-state-after-received-input', 'implies((6 <= inp and inp <= 12) or inp == 14 or inp == 16, self.state.value == rfc_next(st, inp, k))', ['C07', 'C20']),
             ('closed-by-after-received-input', 'implies((6 <= inp and inp <= 12) or inp == 14 or inp == 16, (-1 if self.stream_closed_by is None else self.stream_closed_by.value) == rfc_closed_by(st, inp, k, cb))', ['C07', 'C20']),
             ('event-count', '(0 if result is None else len(result)) == (0 if rfc_event(st, inp, k, cl, hs, ts, hr, tr) == "" else 1)', ['C06', 'C07']),
             ('event-kind', 'implies(rfc_event(st, inp, k, cl, hs, ts, hr, tr) != "", class_name(result[0]) == rfc_event(st, inp, k, cl, hs, ts, hr, tr))', ['C06', 'C07', 'C24']),
             ('client', 'self.client == rfc_client_after(st, inp, k, cl)', ['C06', 'C07', 'C08']),
             ('headers-sent', 'bool(self.headers_sent) == bool(rfc_hs_after(st, inp, k, hs))', ['C06', 'C08']),
             ('trailers-sent', 'bool(self.trailers_sent) == bool(rfc_ts_after(st, inp, k, hs, ts))', ['C06', 'C08']),
             ('headers-received', 'bool(self.headers_received) == bool(rfc_hr_after(st, inp, k, hr))', ['C06', 'C07']),
             ('trailers-received', 'bool(self.trailers_received) == bool(rfc_tr_after(st, inp, k, hr, tr))', ['C06', 'C07']),
             ('inv', 'SM_INV(self)', ['C06', 'C07', 'C08']),
             ],
    raises=[dict(exc='StreamClosedError', when='k == K_CLOSED or k == K_RST', props=['C06', 'C20'],
                 ensures=[('events', 'len(exc._events) == (1 if k == K_RST else 0)'),
                          ('reset-event', 'implies(k == K_RST, class_name(exc._events[0]) == "StreamReset" and exc._events[0].remote_reset is False and exc._events[0].error_code == STREAM_CLOSED)', ['C06', 'C07']),
                          ('code', 'exc.error_code == STREAM_CLOSED', ['C06', 'C18']),
                          ('sid', 'exc.stream_id == self.stream_id')]),
            dict(exc='ProtocolError', when='k == K_PROTO', props=['C06', 'C08', 'C20', 'C07'],
                 ensures=[('code', 'exc.error_code == PROTOCOL_ERROR', ['C06', 'C18'])])],
    on_raise=[('closed', 'self.state == StreamState.CLOSED', ['C06']),
              ('closed-by', '(-1 if self.stream_closed_by is None else self.stream_closed_by.value) == rfc_closed_by(st, inp, k, cb)', ['C06']),
              ('flags-kept', 'self.client == cl and bool(self.headers_sent) == bool(hs) and bool(self.headers_received) == bool(hr)'),
              ('inv', 'SM_INV(self)', ['C06', 'C07', 'C08'])],
    unchanged=['self.stream_id'],
    canary='self.state == old(self.state) and (result is None or len(result) == 0)')

CM = 'h2.connection.H2ConnectionStateMachine'
modular(CM + '.process_input')
# every frame handler and sending call consults this table first, so the properties about what a received PING /
# PRIORITY frame does (C26, C23) rest on its rows as much as C19 / C08 do
contract(CM + '.process_input', props=['C19', 'C08', 'C26', 'C23'],
    args={'input_': 'enum:ConnectionInputs'},
    setup=concretize_state_and_input, result='list',
    modifies=['field|self.state|enum:ConnectionState'],
    let={'st': 'self.state.value', 'inp': 'input_.value'},
    ensures=[('accepted', 'conn_accepts(st, inp)'),
             ('next-state', 'self.state.value == conn_next(st, inp)'),
             ('closed-only-goaway', 'implies(st == C_CLOSED, inp == CI_SEND_GOAWAY or inp == CI_RECV_GOAWAY)', ['C19']),
             ('goaway-closes', 'implies(inp == CI_SEND_GOAWAY or inp == CI_RECV_GOAWAY, self.state == ConnectionState.CLOSED)', ['C19']),
             ('no-events', 'len(result) == 0')],
    raises=[dict(exc='ProtocolError', when='not conn_accepts(st, inp)',
                 ensures=[('code', 'exc.error_code == PROTOCOL_ERROR')])],
    on_raise=[('invalid-input-closes', 'self.state == ConnectionState.CLOSED', ['C19'])],
    canary='self.state == old(self.state)')
