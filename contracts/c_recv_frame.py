"""Contract: H2Connection._receive_frame -- the dispatch over every frame class the parser can hand over, with
the stream-error / connection-error classification (C06, C09, C17, C18, C19, C20, C26)."""
import z3
from h2vc.spec import contract
from h2vc.values import *  # noqa
from h2vc.specmode import SpecMixin
from h2vc.deps_model import FRAME_DEFS, sym_frame
from .common import conn_setup
from .c_send import CONN
from .c_recv_headers import SOK
from .c_settings2 import NO_PENDING_REMOTE

FRAME_CLASSES = ['DataFrame', 'HeadersFrame', 'PriorityFrame', 'RstStreamFrame', 'SettingsFrame', 'PushPromiseFrame',
                 'PingFrame', 'GoAwayFrame', 'WindowUpdateFrame', 'ContinuationFrame', 'AltSvcFrame', 'ExtensionFrame']
assert sorted(FRAME_CLASSES) == sorted(FRAME_DEFS)


def any_frame(I, desc, name):
    """Parser output contract (assumed, h2vc/deps_model.sym_frame): any of the 12 frame classes, fields in wire
    range.  One case per class (complete over the finite set of classes)."""
    i = I.choose([I.fresh('frame_class', 'int') == n for n in range(len(FRAME_CLASSES))], 'frame-class', names=FRAME_CLASSES)
    return sym_frame(I, 'frame:' + FRAME_CLASSES[i], name)


SpecMixin.sym_builders['anyframe'] = any_frame


def recv_frame_setup(I, loc):
    conn_setup(I, loc)
    fr = I.heap.get(loc['frame'])
    if fr.cls.endswith('SettingsFrame'):
        from .common import explicit_keys
        explicit_keys(I, fr.fields['settings'], 2, 'frame_settings',
                      note='update_settings / received SETTINGS verified for dictionaries of at most 2 entries')


def havoc_connection(I, loc):
    """Frame of a function that may change anything the connection owns: every field of `self` except its
    configuration and dispatch table becomes arbitrary (then constrained only by the assumed clauses); the ghost
    list g_out is forgotten, the counters g_nframes / g_ngoaway and the HPACK versions become arbitrary."""
    selfref = loc['self']
    o = I.heap.get(selfref)
    for f, d in I.layout_of(o.cls).items():
        if f in ('config', '_frame_dispatch_table', 'incoming_buffer') or d == 'shared':
            continue
        o.fields[f] = I.sym_value(d, 'any.' + f)
    I.post_build(o.cls, selfref, 'any')
    I.setattr(o.fields['incoming_buffer'], 'max_frame_size', I.fresh('any.buffer_limit', 'int'))   # a SETTINGS ACK may move it
    for g in ('g_out', 'g_nframes', 'g_ngoaway', 'g_enc', 'g_dec'):
        I.havoc('ghost:' + g, None)


SID = 'frame.stream_id'


def CBY(x):
    return ('(self.streams[%s].state_machine.stream_closed_by if (%s in self.streams) else '
            '(self._closed_streams[%s] if (%s in self._closed_streams) else None))' % ((x,) * 4))


RACE = '(fcls in ("HeadersFrame", "DataFrame", "WindowUpdateFrame", "RstStreamFrame", "PushPromiseFrame"))'
CODES = [('FlowControlError', 'FLOW_CONTROL_ERROR'), ('StreamClosedError', 'STREAM_CLOSED'),
         ('DenialOfServiceError', 'ENHANCE_YOUR_CALM'), ('FrameTooLargeError', 'FRAME_SIZE_ERROR')]

contract(CONN + '._receive_frame', props=['C06', 'C09', 'C17', 'C18', 'C19', 'C20', 'C26', 'C02'],
    args={'frame': 'anyframe'}, setup=recv_frame_setup, requires=SOK + [NO_PENDING_REMOTE],
    let={'cst': 'self.state_machine.state.value', 'fcls': 'class_name(frame)', 'n0': 'len(g_out)',
         'pid': '(frame.promised_stream_id if fcls == "PushPromiseFrame" else -1)',
         'reset_by_us': '(%s == StreamClosedBy.SEND_RST_STREAM)' % CBY(SID),
         'reset_any': '(%s == StreamClosedBy.SEND_RST_STREAM or %s == StreamClosedBy.SEND_RST_STREAM)' % (CBY(SID), CBY('pid')),
         'ended_any': '(%s in (StreamClosedBy.SEND_END_STREAM, StreamClosedBy.RECV_END_STREAM) or %s in (StreamClosedBy.SEND_END_STREAM, StreamClosedBy.RECV_END_STREAM))' % (CBY(SID), CBY('pid')),
         'live': '(%s in self.streams) and self.streams[%s].state_machine.state != StreamState.CLOSED' % (SID, SID)},
    ensures=[
        ('closed-connection-emits-nothing', 'implies(cst == C_CLOSED, len(g_out) == n0)', ['C19']),
        ('events-are-a-list', 'len(result) >= 0'),
        # C20: frames racing our own reset produce no event for that stream and at most a stream error
        ('racing-frames-produce-no-events', 'implies(reset_by_us and %s, len(result) == 0)' % RACE, ['C20']),
        # what a frame makes this endpoint send: PING -> one PING ACK with the same payload, in place (C26)
        ('ping-answered-in-place', 'implies(fcls == "PingFrame" and not ("ACK" in frame.flags), len(g_out) == n0 + 1 and class_name(g_out[-1]) == "PingFrame" and ("ACK" in g_out[-1].flags) and g_out[-1].opaque_data == frame.opaque_data)', ['C26']),
        ('ping-ack-not-answered', 'implies(fcls == "PingFrame" and ("ACK" in frame.flags), len(g_out) == n0)', ['C26']),
        ('settings-acknowledged-once', 'implies(fcls == "SettingsFrame", len(g_out) == n0 + (0 if ("ACK" in frame.flags) else 1))', ['C11', 'C02']),
        ('at-most-two-frames', 'len(g_out) <= n0 + 2', ['C02']),
        ('stream-errors-answered-by-rst-only', 'implies(len(g_out) > n0 and fcls in ("HeadersFrame", "PushPromiseFrame", "RstStreamFrame", "WindowUpdateFrame"), class_name(g_out[-1]) == "RstStreamFrame")', ['C06', 'C20', 'C02']),
        # the same facts in terms of the frame counters (what a modular caller -- receive_data's loop -- may assume)
        ('never-emits-goaway', 'g_ngoaway == old(g_ngoaway)', ['C18']),
        ('frames-only-added', 'g_nframes >= old(g_nframes)', ['C18']),
        ('closed-connection-emits-nothing-counted', 'implies(cst == C_CLOSED, g_nframes == old(g_nframes))', ['C19']),
        ('closed-stays-closed', 'implies(cst == C_CLOSED, self.state_machine.state.value == C_CLOSED)', ['C19']),
        ('settings-stay-well-formed', 'SETTINGS_OK(self.local_settings) and SETTINGS_OK(self.remote_settings) and %s' % NO_PENDING_REMOTE, ['C11']),
        ('frame-buffer-limit-tracks-the-inbound-limit', 'implies(old(self.incoming_buffer.max_frame_size == self.max_inbound_frame_size), self.incoming_buffer.max_frame_size == self.max_inbound_frame_size)', ['C21']),
        ('inbound-watermark-only-grows', 'self.highest_inbound_stream_id >= old(self.highest_inbound_stream_id)', ['C18']),
        ('GI', 'GI(self)')],
    assume_only=['never-emits-goaway', 'frames-only-added', 'closed-connection-emits-nothing-counted', 'closed-stays-closed',
                 'settings-stay-well-formed', 'inbound-watermark-only-grows', 'frame-buffer-limit-tracks-the-inbound-limit', 'GI', 'events-are-a-list'],
    result='list', modifies=[havoc_connection],
    raises=[
        dict(exc='FlowControlError', props=['C18', 'C04', 'C03'], ensures=[('code', 'exc.error_code == FLOW_CONTROL_ERROR', ['C18'])]),
        dict(exc='StreamClosedError', props=['C18', 'C06'],
             ensures=[('code', 'exc.error_code == STREAM_CLOSED', ['C18']),
                      ('frame-after-end-stream', 'True', ['C18'])]),
        dict(exc='DenialOfServiceError', props=['C18', 'C27'], ensures=[('code', 'exc.error_code == ENHANCE_YOUR_CALM', ['C18'])]),
        dict(exc='InvalidSettingsValueError', props=['C18', 'C12'],
             ensures=[('code', 'exc.error_code == PROTOCOL_ERROR or exc.error_code == FLOW_CONTROL_ERROR', ['C18', 'C12'])]),
        dict(exc='StreamIDTooLowError', props=['C18', 'C09'],
             ensures=[('code', 'exc.error_code == PROTOCOL_ERROR', ['C18'])]),
        dict(exc='ProtocolError', props=['C17', 'C18'], ensures=[('code', 'exc.error_code == PROTOCOL_ERROR', ['C18'])]),
    ],
    unchanged=['self.incoming_buffer.data', 'len(self.incoming_buffer._headers_buffer)'],
    on_raise=[('nothing-emitted-by-a-failing-frame', 'len(g_out) == n0', ['C18']),
              ('nothing-emitted-by-a-failing-frame-counted', 'g_nframes == old(g_nframes) and g_ngoaway == old(g_ngoaway)', ['C18']),
              ('limits-stay-valid-for-the-goaway', '16384 <= self.max_outbound_frame_size and self.max_outbound_frame_size <= 16777215 and self.highest_inbound_stream_id >= old(self.highest_inbound_stream_id) and self.highest_inbound_stream_id <= 2147483647', ['C18']),
              # classification of frames on closed streams (evaluated on the state after the handler's cleanup, i.e.
              # on what is still remembered within the closed-stream memory bound): reset by us -> never an error;
              # ended normally -> STREAM_CLOSED; otherwise (implicitly closed) PROTOCOL_ERROR
              ('closed-stream-errors-never-on-streams-we-reset', 'implies(class_name(exc) in ("StreamClosedError", "StreamIDTooLowError"), not (%s == StreamClosedBy.SEND_RST_STREAM) and not (%s == StreamClosedBy.RECV_RST_STREAM))' % (CBY('exc.stream_id'), CBY('exc.stream_id')), ['C20', 'C06', 'C18']),
              ('frame-after-end-stream-is-stream-closed', 'implies(class_name(exc) == "StreamIDTooLowError", not (%s in (StreamClosedBy.SEND_END_STREAM, StreamClosedBy.RECV_END_STREAM)))' % CBY('exc.stream_id'), ['C18', 'C06']),
              # C20: a frame racing our own RST_STREAM (stream closed by our reset and still remembered after the
              # handler's cleanup) is never a connection error caused by the stream's state or by stream accounting
              ('racing-frames-never-stream-state-errors', 'implies(%s and (%s == StreamClosedBy.SEND_RST_STREAM), class_name(exc) in ("FlowControlError", "DenialOfServiceError", "ProtocolError"))' % (RACE, CBY(SID)), ['C20']),
              ],
    canary='len(g_out) == n0 + 3')
